"""C08 helpers: building MPS, observing them with plain numpy, and driving one public call.

Nothing in here judges: `Sess.do(op)` executes ONE public MatrixProductState call (threading the one
`info` dict of the session through it), then measures -- with numpy on the raw site arrays and on
`to_dense()` -- what the trace record needs: the record, per-site isometry, `left_inds` claims, the dense
state against the state expected from the call's meaning, and the query result against the dense value.
TLC (spec/C08/C08_Trace.tla) evaluates the clauses on these observations.
"""

import math

import numpy as np

from ..snap import qdiff, snap_int

BAD = -999999  # "not on the lattice" marker that keeps the JSON well typed for TLC


# ----------------------------------------------------------------------------- numpy side

def spin_ops(d):
    """textbook spin-S matrices (S = (d-1)/2), basis m = S, S-1, ..., -S"""
    S = (d - 1) / 2
    m = np.array([S - k for k in range(d)])
    sz = np.diag(m).astype(complex)
    sp = np.zeros((d, d), dtype=complex)
    for k in range(1, d):
        # S+ |m_k> = sqrt(S(S+1) - m_k(m_k+1)) |m_k + 1>
        sp[k - 1, k] = math.sqrt(S * (S + 1) - m[k] * (m[k] + 1))
    sm = sp.conj().T
    return {"X": (sp + sm) / 2, "Y": (sp - sm) / (2j), "Z": sz, "+": sp, "-": sm}


def apply_op_dense(vec, dims, G, where):
    """G (matrix on the sites `where`, first factor = where[0]) applied to the dense vector"""
    L = len(dims)
    t = np.asarray(vec).reshape(dims)
    k = len(where)
    gd = [dims[w] for w in where]
    Gt = np.asarray(G).reshape(gd + gd)
    t = np.tensordot(Gt, t, axes=(list(range(k, 2 * k)), list(where)))
    # result axes: (where..., rest in order)
    rest = [a for a in range(L) if a not in where]
    order = list(where) + rest
    inv = [order.index(a) for a in range(L)]
    return t.transpose(inv).reshape(-1)


def permute_dense(vec, dims, perm):
    """new site k carries old site perm[k]"""
    t = np.asarray(vec).reshape(dims).transpose(perm)
    return t.reshape(-1), [dims[p] for p in perm]


def move_perm(L, i, f):
    p = list(range(L))
    x = p.pop(i)
    p.insert(f, x)
    return p


def schmidt_dense(vec, dims, cut):
    a = int(np.prod(dims[:cut]))
    s = np.linalg.svd(np.asarray(vec).reshape(a, -1), compute_uv=False)
    return np.sort(s ** 2)[::-1]


def rdm_dense(vec, dims, where):
    """reduced density matrix on `where` (index order as listed), unnormalised"""
    L = len(dims)
    t = np.asarray(vec).reshape(dims)
    rest = [a for a in range(L) if a not in where]
    t = t.transpose(list(where) + rest).reshape(int(np.prod([dims[w] for w in where])), -1)
    return t @ t.conj().T


def pad_desc(a, n):
    a = np.sort(np.asarray(a, dtype=float).reshape(-1))[::-1]
    out = np.zeros(n)
    out[: min(n, a.size)] = a[:n]
    return out


def qd_sorted(a, b, tol):
    n = max(np.size(a), np.size(b))
    return qdiff(pad_desc(a, n), pad_desc(b, n), tol)


def snap60(x, tol):
    s = snap_int(x, tol, 60.0)
    return BAD if s == "OFFGRID" else s


# ----------------------------------------------------------------------------- building states

def random_arrays(rng, L, d, chi, dtype, full_rank=True):
    arrs = []
    bd = [1]
    for i in range(1, L):
        cap = min(d ** i, d ** (L - i)) if full_rank else chi
        bd.append(max(1, min(chi, cap)))
    bd.append(1)
    for i in range(L):
        shp = (bd[i], bd[i + 1], d)
        a = rng.standard_normal(shp)
        if np.dtype(dtype).kind == "c":
            a = a + 1j * rng.standard_normal(shp)
        arrs.append(a.astype(dtype))
    out = []
    for i, a in enumerate(arrs):
        if i == 0:
            a = a[0]          # (r, p)
        elif i == L - 1:
            a = a[:, 0]       # (l, p)
        out.append(a)
    return out


def mps_from_arrays(arrs):
    import quimb.tensor as qtn

    return qtn.MatrixProductState(arrs, shape="lrp")


def gauge_scramble(rng, arrs3, dtype):
    """arrs3: list of (l, r, p) arrays; insert a random invertible gauge on every bond"""
    L = len(arrs3)
    out = [a.astype(dtype) for a in arrs3]
    for i in range(L - 1):
        n = out[i].shape[1]
        g = rng.standard_normal((n, n)) + 2.0 * np.eye(n)
        if np.dtype(dtype).kind == "c":
            g = g + 1j * rng.standard_normal((n, n))
        gi = np.linalg.inv(g)
        out[i] = np.einsum("lrp,rs->lsp", out[i], g)
        out[i + 1] = np.einsum("sl,lrp->srp", gi, out[i + 1])
    return [a.astype(dtype) for a in out]


ONE_SITE = {
    "0": [1, 0], "1": [0, 1],
    "+": [2 ** -0.5, 2 ** -0.5], "-": [2 ** -0.5, -(2 ** -0.5)],
    "i+": [2 ** -0.5, 1j * 2 ** -0.5], "i-": [2 ** -0.5, -1j * 2 ** -0.5],
}


def exact_arrays(kind, L, sites=None):
    """(l, r, p) arrays of the exact states of C08_Defs"""
    if kind == "prod":
        return [np.array(ONE_SITE[s], dtype=complex).reshape(1, 1, 2) for s in sites]
    arrs = []
    for i in range(L):
        a = np.zeros((2, 2, 2), dtype=complex)
        if kind == "ghz":
            a[0, 0, 0] = 1
            a[1, 1, 1] = 1
        else:  # w: bond state 0 = "no excitation yet", 1 = "excitation placed"
            a[0, 0, 0] = 1
            a[1, 1, 0] = 1
            a[0, 1, 1] = 1
        if i == 0:
            a = a[0:1] + a[1:2] if kind == "ghz" else a[0:1]
        if i == L - 1:
            a = a[:, 0:1] + a[:, 1:2] if kind == "ghz" else a[:, 1:2]
        arrs.append(a)
    nrm = math.sqrt(2.0) if kind == "ghz" else math.sqrt(L)
    arrs[0] = arrs[0] / nrm
    return arrs


def squeeze_ends(arrs3):
    out = []
    for i, a in enumerate(arrs3):
        if i == 0:
            a = a[0]
        elif i == len(arrs3) - 1:
            a = a[:, 0]
        out.append(a)
    return out


# ----------------------------------------------------------------------------- observation

def _site_view(psi, i):
    """(array reshaped to (dl, d, dr), names) of site i, found from the raw inds of the tensors"""
    L = psi.L
    t = psi[i]
    if not hasattr(t, "inds"):
        raise RuntimeError("site %d is not a single tensor" % i)
    k = psi.site_ind(i)
    lb = rb = None
    if i > 0:
        sh = [x for x in t.inds if x in psi[i - 1].inds]
        if len(sh) != 1:
            raise RuntimeError("no single bond %d-%d" % (i - 1, i))
        lb = sh[0]
    if i < L - 1:
        sh = [x for x in t.inds if x in psi[i + 1].inds]
        if len(sh) != 1:
            raise RuntimeError("no single bond %d-%d" % (i, i + 1))
        rb = sh[0]
    names = [x for x in (lb, k, rb) if x is not None]
    if sorted(names) != sorted(t.inds):
        raise RuntimeError("unexpected indices on site %d: %s" % (i, t.inds))
    a = np.asarray(t.data).transpose([t.inds.index(x) for x in names])
    dl = a.shape[0] if lb is not None else 1
    dr = a.shape[-1] if rb is not None else 1
    d = a.shape[1] if lb is not None else a.shape[0]
    return a.reshape(dl, d, dr), lb, k, rb


def observe(psi, info, tol):
    """the observation of one state + record: plain numpy on the site arrays"""
    L = psi.L
    isoL, isoR, flags, defect = [], [], [], 0.0
    for i in range(L):
        a, lb, k, rb = _site_view(psi, i)
        dl, d, dr = a.shape
        X = a.reshape(dl * d, dr)
        Y = a.reshape(dl, d * dr)
        eL = float(np.linalg.norm(X.conj().T @ X - np.eye(dr)))
        eR = float(np.linalg.norm(Y @ Y.conj().T - np.eye(dl)))
        isoL.append(bool(eL < tol))
        isoR.append(bool(eR < tol))
        t = psi[i]
        li = t.left_inds
        if li is None:
            flags.append({"claim": False, "iso": False, "kind": "N"})
        else:
            S = set(li)
            rest = [x for x in t.inds if x not in S]
            perm = [t.inds.index(x) for x in list(li) + rest]
            b = np.asarray(t.data).transpose(perm)
            nl = int(np.prod(b.shape[: len(li)])) if len(li) else 1
            M = b.reshape(nl, -1)
            e = float(np.linalg.norm(M.conj().T @ M - np.eye(M.shape[1])))
            kind = "L" if S == {x for x in (lb, k) if x is not None} else (
                "R" if S == {x for x in (k, rb) if x is not None} else "O")
            flags.append({"claim": True, "iso": bool(e < tol), "kind": kind})
    return {"L": int(L), "rec": rec_of(info), "isoL": isoL, "isoR": isoR, "flags": flags}


def rec_of(info):
    if not isinstance(info, dict) or "cur_orthog" not in info:
        return [-4, -4]          # no entry (canonicalize defaults it to "calc", the wrapped methods to None)
    c = info["cur_orthog"]
    if c is None:
        return [-1, -1]
    if isinstance(c, str):
        return [-2, -2] if c == "calc" else [-3, -3]
    try:
        if isinstance(c, (int, np.integer)):
            return [int(c), int(c)]
        a, b = c
        return [int(a), int(b)]
    except Exception:
        return [-3, -3]


def rec_sound_py(ob):
    """used only to steer the random walk (reset the record after an unsound one), never as a verdict"""
    lo, hi = ob["rec"]
    if lo in (-1, -2, -4) and lo == hi:
        return True
    L = ob["L"]
    if not (0 <= lo <= hi <= L - 1):
        return False
    return all(ob["isoL"][:lo]) and all(ob["isoR"][hi + 1:]) and all((not f["claim"]) or f["iso"] for f in ob["flags"])


# ----------------------------------------------------------------------------- the caller's rule (mirrors C08_Defs!CallerRecord)

def promise(ev, a, L):
    W, EL, ER = set(), set(), set()
    if ev == "left_canonize_site":
        W, EL = {a["i"], a["i"] + 1}, {a["i"]}
    elif ev == "right_canonize_site":
        W, ER = {a["i"] - 1, a["i"]}, {a["i"]}
    elif ev == "left_canonicalize":
        if a["stop"] > a["start"]:
            W, EL = set(range(a["start"], a["stop"] + 1)), set(range(a["start"], a["stop"]))
    elif ev == "right_canonicalize":
        if a["start"] > a["stop"]:
            W, ER = set(range(a["stop"], a["start"] + 1)), set(range(a["stop"] + 1, a["start"] + 1))
    elif ev == "gate1":
        if not a["unitary"]:
            W = {a["i"]}
    elif ev == "gate_split":
        i = a["i"]
        W = {i, i + 1}
        if (a["absorb"] == "right" and not a["rev"]) or (a["absorb"] == "left" and a["rev"]):
            EL = {i}
        if (a["absorb"] == "left" and not a["rev"]) or (a["absorb"] == "right" and a["rev"]):
            ER = {i + 1}
    elif ev in ("normalize",):
        W = {a["insert"]}
    elif ev == "tensor_normalize":
        W = {a["i"]}
    return W, EL, ER


def caller_record(ev, a, rec, L):
    if ev == "compress":
        return {"right": [0, 0], "left": [L - 1, L - 1], "flat": [-1, -1]}.get(a["form"], [a["c"], a["c"]])
    if ev == "gate_with_mpo":
        return [L - 1, L - 1] if a["rev"] else [0, 0]
    if ev == "shift":
        return [a["new"], a["new"]]
    lo, hi = rec
    if lo < 0:
        return [lo, hi]
    W, EL, ER = promise(ev, a, L)
    NL = [x for x in range(L) if (x >= lo or x in W) and x not in EL]
    NR = [x for x in range(L) if (x <= hi or x in W) and x not in ER]
    lo2 = min(NL) if NL else L - 1
    hi2 = max(NR) if NR else 0
    return [lo2, hi2] if lo2 <= hi2 else [hi2, hi2]


def set_rec(info, rec):
    if rec[0] == -4:
        info.pop("cur_orthog", None)
    elif rec[0] == -1:
        info["cur_orthog"] = None
    elif rec[0] == -2:
        info["cur_orthog"] = "calc"
    else:
        info["cur_orthog"] = (int(rec[0]), int(rec[1]))


# ----------------------------------------------------------------------------- random operators

def rand_unitary(rng, n, cplx):
    a = rng.standard_normal((n, n))
    if cplx:
        a = a + 1j * rng.standard_normal((n, n))
    q, r = np.linalg.qr(a)
    ph = np.diag(r) / np.abs(np.diag(r))
    return q * ph


def rand_op(rng, n, cplx):
    a = rng.standard_normal((n, n)) / math.sqrt(n) + np.eye(n)
    if cplx:
        a = a + 1j * rng.standard_normal((n, n)) / math.sqrt(n)
    return a


# ----------------------------------------------------------------------------- one session = one history

RECORD_EVENTS = {"canonicalize", "swap_sites", "swap_site_to", "gate_with_auto_swap", "gate_with_submpo",
                 "compress_site", "measure", "schmidt_values", "entropy", "schmidt_gap", "singular_values",
                 "bipartite_schmidt_state", "magnetization", "partial_trace_canonical",
                 "local_expectation_canonical", "compute_local_expectation_canonical",
                 "sample_configuration", "sample"}
CALLER_EVENTS = {"left_canonize_site", "right_canonize_site", "left_canonicalize", "right_canonicalize", "shift",
                 "gate1", "gate_split", "compress", "gate_with_mpo", "normalize", "tensor_normalize"}


class Sess:
    def __init__(self, psi, dtype, rng, tid, exact=None):
        self.psi = psi
        self.info = {}
        self.dtype = np.dtype(dtype)
        self.cplx = self.dtype.kind == "c"
        single = self.dtype in (np.dtype("float32"), np.dtype("complex64"))
        self.itol = 5e-4 if single else 1e-8      # isometry defect
        self.qtol = 2e-3 if single else 1e-8      # queries / dense state (relative, see qv.snap.qdiff)
        self.rng = rng
        self.tid = tid
        self.seq = 0
        self.recs = []
        self.exact = exact          # dict(kind, L, sites) for exact-domain traces
        self.tnorm = False          # the history contains Tensor.normalize on a flagged tensor
        self.dead = False           # the state is no longer finite / no longer an MPS
        self.last = None

    # -- helpers
    def dims(self):
        return [int(self.psi.phys_dim(i)) for i in range(self.psi.L)]

    def dense(self, psi=None):
        psi = self.psi if psi is None else psi
        return np.asarray(psi.to_dense()).reshape(-1)

    def emit(self, ev, args, extra=None, exc="", psi=None, obj="receiver"):
        rec = {"tid": self.tid, "seq": self.seq, "ev": ev, "args": dict(args, z=0), "exc": exc, "obj": obj,
               "dtype": str(self.dtype), "hist_tnorm": bool(self.tnorm)}
        try:
            ob = observe(self.psi if psi is None else psi, self.info, self.itol)
        except Exception as ex:  # the object is no longer an MPS we can look at
            ob = {"L": 2, "rec": [-3, -3], "isoL": [False, False], "isoR": [False, False],
                  "flags": [{"claim": False, "iso": False, "kind": "N"}] * 2}
            rec["exc"] = (exc + "|" if exc else "") + "observe:" + type(ex).__name__
            self.dead = True
        rec.update(ob)
        if extra:
            rec.update(extra)
        rec.setdefault("q", {"z": 0})
        self.recs.append(rec)
        self.seq += 1
        self.last = rec
        return rec

    def init(self, rec=None, extra=None):
        if rec is not None:
            set_rec(self.info, rec)
        ex = dict(extra or {})
        if self.exact is not None:
            ex["x"] = {"kind": self.exact["kind"], "L": self.exact["L"], "sites": list(self.exact.get("sites") or [])}
        return self.emit("init", {}, ex)

    # -- the calls
    def do(self, op):
        """op = dict(ev=..., **args).  Returns the trace record (or None if the op does not apply)."""
        ev = op["ev"]
        fn = getattr(self, "op_" + ev)
        return fn(op)

    def _finish(self, ev, args, pre_dense, expect, newpsi=None, q=None, extra=None, obj=None):
        """log after a successful call; `expect` = expected dense vector or None (not compared)"""
        if newpsi is not None:
            self.psi = newpsi
        ex = dict(extra or {})
        try:
            post = self.dense()
            if not np.all(np.isfinite(post)):
                self.dead = True        # nothing can be measured on this state any more: the history ends here
                ex["dstate"] = 999998
            elif expect is not None:
                ex["dstate"] = qdiff(post, expect, self.qtol)
        except Exception as e:  # noqa
            self.dead = True
            ex["dstate"] = 999990
        if q is not None:
            ex["q"] = dict(q, z=0)
        return self.emit(ev, args, ex, obj=obj or ("returned" if newpsi is not None else "receiver"))

    def _fail(self, ev, args, ex):
        return self.emit(ev, args, None, exc=type(ex).__name__)

    def _caller(self, ev, args, L_before):
        """a method without record argument: the caller (this driver) updates the record"""
        set_rec(self.info, caller_record(ev, args, rec_of(self.info), L_before))

    # ---- methods without record argument
    def op_left_canonize_site(self, op):
        a = {"i": op["i"]}
        v = self.dense()
        L = self.psi.L
        try:
            self.psi.left_canonize_site(op["i"])
        except Exception as ex:
            return self._fail("left_canonize_site", a, ex)
        self._caller("left_canonize_site", a, L)
        return self._finish("left_canonize_site", a, v, v)

    def op_right_canonize_site(self, op):
        a = {"i": op["i"]}
        v = self.dense()
        L = self.psi.L
        try:
            self.psi.right_canonize_site(op["i"])
        except Exception as ex:
            return self._fail("right_canonize_site", a, ex)
        self._caller("right_canonize_site", a, L)
        return self._finish("right_canonize_site", a, v, v)

    def op_left_canonicalize(self, op):
        L = self.psi.L
        a = {"start": op.get("start", 0), "stop": op.get("stop", L - 1), "inplace": bool(op.get("inplace", True))}
        v = self.dense()
        try:
            new = self.psi.left_canonicalize(stop=a["stop"], start=a["start"], inplace=a["inplace"])
        except Exception as ex:
            return self._fail("left_canonicalize", a, ex)
        self._caller("left_canonicalize", a, L)
        return self._finish("left_canonicalize", a, v, v, newpsi=None if a["inplace"] else new)

    def op_right_canonicalize(self, op):
        L = self.psi.L
        a = {"start": op.get("start", L - 1), "stop": op.get("stop", 0), "inplace": bool(op.get("inplace", True))}
        v = self.dense()
        try:
            new = self.psi.right_canonicalize(stop=a["stop"], start=a["start"], inplace=a["inplace"])
        except Exception as ex:
            return self._fail("right_canonicalize", a, ex)
        self._caller("right_canonicalize", a, L)
        return self._finish("right_canonicalize", a, v, v, newpsi=None if a["inplace"] else new)

    def op_shift(self, op):
        a = {"cur": op["cur"], "new": op["new"]}
        v = self.dense()
        L = self.psi.L
        try:
            self.psi.shift_orthogonality_center(op["cur"], op["new"])
        except Exception as ex:
            return self._fail("shift", a, ex)
        self._caller("shift", a, L)
        return self._finish("shift", a, v, v)

    def op_gate1(self, op):
        i, u = op["i"], bool(op["unitary"])
        d = self.dims()[i]
        G = (rand_unitary(self.rng, d, self.cplx) if u else rand_op(self.rng, d, self.cplx)).astype(self.dtype)
        a = {"i": i, "unitary": u, "inplace": bool(op.get("inplace", True))}
        v = self.dense()
        L = self.psi.L
        try:
            new = self.psi.gate(G, i, contract=True, info=self.info, inplace=a["inplace"])
        except Exception as ex:
            return self._fail("gate1", a, ex)
        self._caller("gate1", a, L)
        return self._finish("gate1", a, v, apply_op_dense(v, self.dims(), G, [i]), newpsi=None if a["inplace"] else new)

    def op_gate_split(self, op):
        i, ab, rev = op["i"], op["absorb"], bool(op["rev"])
        dm = self.dims()
        where = (i + 1, i) if rev else (i, i + 1)
        n = dm[where[0]] * dm[where[1]]
        G = (rand_unitary(self.rng, n, self.cplx) if op.get("unitary", True) else rand_op(self.rng, n, self.cplx)).astype(self.dtype)
        a = {"i": i, "absorb": ab, "rev": rev, "inplace": bool(op.get("inplace", True)), "trunc": bool(op.get("trunc", False))}
        v = self.dense()
        L = self.psi.L
        kw = {"max_bond": 2} if a["trunc"] else {"cutoff": 0.0}
        try:
            new = self.psi.gate_split(G, where, absorb=ab, inplace=a["inplace"], **kw)
        except Exception as ex:
            return self._fail("gate_split", a, ex)
        self._caller("gate_split", a, L)
        return self._finish("gate_split", a, v, None if a["trunc"] else apply_op_dense(v, dm, G, list(where)),
                            newpsi=None if a["inplace"] else new)

    def op_compress(self, op):
        form = op["form"]
        L = self.psi.L
        a = {"form": form, "c": int(op.get("c", 0)), "trunc": bool(op.get("trunc", False))}
        v = self.dense()
        kw = {"max_bond": 2} if a["trunc"] else {"cutoff": 0.0}
        try:
            self.psi.compress(form=(a["c"] if form == "int" else form), **kw)
        except Exception as ex:
            return self._fail("compress", a, ex)
        self._caller("compress", a, L)
        return self._finish("compress", a, v, None if a["trunc"] else v)

    def op_gate_with_mpo(self, op):
        import quimb.tensor as qtn

        L = self.psi.L
        d = self.dims()[0]
        a = {"rev": bool(op["rev"]), "method": op.get("method", "direct"), "inplace": bool(op.get("inplace", False))}
        mpo = qtn.MPO_rand(L, 2, phys_dim=d, dtype=str(np.dtype(complex if self.cplx else float)),
                           seed=int(self.rng.integers(1 << 30)), herm=False)
        mpo = mpo.astype(str(self.dtype)) if hasattr(mpo, "astype") else mpo
        v = self.dense()
        try:
            M = np.asarray(mpo.to_dense())
            new = self.psi.gate_with_mpo(mpo, method=a["method"], inplace=a["inplace"], sweep_reverse=a["rev"], cutoff=0.0)
        except Exception as ex:
            return self._fail("gate_with_mpo", a, ex)
        self._caller("gate_with_mpo", a, L)
        return self._finish("gate_with_mpo", a, v, M @ v, newpsi=new)

    def op_normalize(self, op):
        L = self.psi.L
        ins = op.get("insert", L - 1)
        a = {"insert": ins}
        v = self.dense()
        try:
            self.psi.normalize(insert=ins)
        except Exception as ex:
            return self._fail("normalize", a, ex)
        self._caller("normalize", a, L)
        return self._finish("normalize", a, v, v / np.linalg.norm(v))

    def op_tensor_normalize(self, op):
        i = op["i"]
        a = {"i": i, "flagged": bool(self.psi[i].left_inds is not None)}
        v = self.dense()
        L = self.psi.L
        nrm = float(np.linalg.norm(np.asarray(self.psi[i].data)))
        try:
            self.psi[i].normalize_()
        except Exception as ex:
            return self._fail("tensor_normalize", a, ex)
        if a["flagged"]:
            self.tnorm = True
        self._caller("tensor_normalize", a, L)
        return self._finish("tensor_normalize", a, v, v / nrm)

    # ---- the caller's own changes of the record
    def op_forget(self, op):
        self.info.clear() if op.get("clear", True) else self.info.__setitem__("cur_orthog", None)
        self.tnorm = self.tnorm
        return self.emit("forget", {})

    def op_calc(self, op):
        self.info["cur_orthog"] = "calc"
        return self.emit("calc", {})

    # ---- methods that take the record
    def op_canonicalize(self, op):
        wi, wj = op["wi"], op["wj"]
        where = wi if (wi == wj and not op.get("astuple")) else ((wj, wi) if op.get("flip") else (wi, wj))
        a = {"wi": wi, "wj": wj, "inplace": bool(op.get("inplace", True))}
        v = self.dense()
        try:
            new = self.psi.canonicalize(where, info=self.info, inplace=a["inplace"])
        except Exception as ex:
            return self._fail("canonicalize", a, ex)
        return self._finish("canonicalize", a, v, v, newpsi=None if a["inplace"] else new)

    def op_swap_sites(self, op):
        i, j, ab = op["i"], op["j"], op["absorb"]
        a = {"i": i, "j": j, "absorb": ab, "inplace": bool(op.get("inplace", True)), "trunc": bool(op.get("trunc", False))}
        dm = self.dims()
        v = self.dense()
        kw = {} if ab == "default" else {"absorb": ab}
        kw.update({"max_bond": 2} if a["trunc"] else {"cutoff": 0.0})
        try:
            new = self.psi.swap_sites_with_compress(i, j, info=self.info, inplace=a["inplace"], **kw)
        except Exception as ex:
            return self._fail("swap_sites", a, ex)
        p = list(range(len(dm)))
        p[i], p[j] = p[j], p[i]
        return self._finish("swap_sites", a, v, None if a["trunc"] else permute_dense(v, dm, p)[0],
                            newpsi=None if a["inplace"] else new)

    def op_swap_site_to(self, op):
        i, f, ab = op["i"], op["f"], op["absorb"]
        a = {"i": i, "f": f, "absorb": ab, "inplace": bool(op.get("inplace", True))}
        dm = self.dims()
        v = self.dense()
        kw = {} if ab == "default" else {"absorb": ab}
        try:
            new = self.psi.swap_site_to(i, f, info=self.info, inplace=a["inplace"], cutoff=0.0, **kw)
        except Exception as ex:
            return self._fail("swap_site_to", a, ex)
        return self._finish("swap_site_to", a, v, permute_dense(v, dm, move_perm(len(dm), i, f))[0],
                            newpsi=None if a["inplace"] else new)

    def op_gate_with_auto_swap(self, op):
        i, j, back = op["i"], op["j"], bool(op["swap_back"])
        via = op.get("via", "method")
        a = {"i": i, "j": j, "swap_back": back, "via": via, "inplace": bool(op.get("inplace", True))}
        dm = self.dims()
        n = dm[i] * dm[j]
        G = (rand_unitary(self.rng, n, self.cplx) if op.get("unitary", True) else rand_op(self.rng, n, self.cplx)).astype(self.dtype)
        v = self.dense()
        try:
            if via == "method":
                new = self.psi.gate_with_auto_swap(G, (i, j), info=self.info, swap_back=back, inplace=a["inplace"], cutoff=0.0)
            else:  # psi.gate(..., contract='swap+split' | 'auto-mps')
                new = self.psi.gate(G, (i, j), contract=via, info=self.info, swap_back=back, inplace=a["inplace"], cutoff=0.0)
        except Exception as ex:
            return self._fail("gate_with_auto_swap", a, ex)
        e = apply_op_dense(v, dm, G, [i, j])
        lo, hi = min(i, j), max(i, j)
        if not back and lo + 1 != hi:
            e = permute_dense(e, dm, move_perm(len(dm), hi, lo + 1))[0]
        return self._finish("gate_with_auto_swap", a, v, e, newpsi=None if a["inplace"] else new)

    def op_gate_with_submpo(self, op):
        import quimb.tensor as qtn

        where = list(op["where"])
        via = op.get("via", "gate_nonlocal")
        a = {"si": min(where), "sf": max(where), "n": len(where), "rev": bool(op["rev"]), "method": op.get("method", "direct"),
             "via": via, "inplace": bool(op.get("inplace", True)), "first": where[0]}
        dm = self.dims()
        n = int(np.prod([dm[w] for w in where]))
        G = (rand_unitary(self.rng, n, self.cplx) if op.get("unitary", True) else rand_op(self.rng, n, self.cplx)).astype(self.dtype)
        v = self.dense()
        kw = {"method": a["method"], "sweep_reverse": a["rev"], "cutoff": 0.0}
        if a["method"] == "fit":
            kw.pop("cutoff")
            kw.update(max_bond=64)
            if op.get("fit_its"):
                kw.update(max_iterations=int(op["fit_its"]), tol=0.0)
                a["fit_its"] = int(op["fit_its"])
        elif a["method"] in ("src", "srcmps"):
            kw.update(max_bond=64)
        if a["method"] in ("fit", "src", "srcmps"):
            kw["seed"] = int(self.rng.integers(1 << 30))     # these methods draw random numbers: keep the run reproducible
        try:
            if via == "gate_nonlocal":
                new = self.psi.gate_nonlocal(G, where, info=self.info, inplace=a["inplace"], **kw)
            elif via == "gate":
                new = self.psi.gate(G, where, contract="nonlocal", info=self.info, inplace=a["inplace"], **kw)
            else:
                mpo = qtn.MatrixProductOperator.from_dense(G, dims=[dm[w] for w in where], sites=where, L=len(dm))
                new = self.psi.gate_with_submpo(mpo, where=where, info=self.info, inplace=a["inplace"], **kw)
        except Exception as ex:
            return self._fail("gate_with_submpo", a, ex)
        exp = None if a["method"] in ("fit", "src", "srcmps") else apply_op_dense(v, dm, G, where)
        return self._finish("gate_with_submpo", a, v, exp, newpsi=None if a["inplace"] else new)

    def op_compress_site(self, op):
        i = op["i"]
        a = {"i": i, "canonize": bool(op.get("canonize", True)), "trunc": bool(op.get("trunc", False))}
        v = self.dense()
        kw = {"max_bond": 2} if a["trunc"] else {"cutoff": 0.0}
        try:
            self.psi.compress_site(i, canonize=a["canonize"], info=self.info, **kw)
        except Exception as ex:
            return self._fail("compress_site", a, ex)
        return self._finish("compress_site", a, v, None if a["trunc"] else v)

    def op_measure(self, op):
        site, remove = op["site"], bool(op["remove"])
        oonly, inplace = bool(op.get("outcome_only", False)), bool(op.get("inplace", False))
        renorm = bool(op.get("renorm", True))
        dm = self.dims()
        L = len(dm)
        v = self.dense()
        n2 = float(np.vdot(v, v).real)
        t = v.reshape(dm)
        pr = np.array([float(np.linalg.norm(np.take(t, o, axis=site)) ** 2) for o in range(dm[site])]) / n2
        seed = int(self.rng.integers(1 << 30))
        fixed = bool(op.get("fixed", False))
        a = {"site": site, "remove": remove, "outcome_only": oonly, "inplace": inplace, "renorm": renorm, "fixed": fixed,
             "last": bool(site == L - 1)}
        kw = {}
        if fixed:  # the caller asks for a particular (possible) outcome
            cands = [o for o in range(dm[site]) if pr[o] > 0.02]
            kw["outcome"] = int(cands[int(self.rng.integers(len(cands)))])
        else:
            kw["seed"] = seed
        try:
            if oonly:
                out = self.psi.measure(site, get="outcome", info=self.info, inplace=inplace, **kw)
                new = None
            else:
                out, new = self.psi.measure(site, remove=remove, renorm=renorm, info=self.info, inplace=inplace, **kw)
        except Exception as ex:
            return self._fail("measure", a, ex)
        out = int(out)
        a["outcome"] = out
        q = {"p_ok": int(0 <= out < dm[site] and pr[out] > 1e-12)}
        if oonly:
            return self._finish("measure", a, v, v, q=q, obj="receiver")
        po = max(pr[out], 1e-300)
        e = np.take(t, out, axis=site)
        if not remove:
            z = np.zeros(dm, dtype=complex)
            idx = [slice(None)] * L
            idx[site] = out
            z[tuple(idx)] = e
            e = z
        e = e.reshape(-1)
        if renorm:
            e = e / math.sqrt(po)
        # the probability the method used is visible in the norm of the state it returns
        post = self.dense(new)
        nn = float(np.vdot(post, post).real)
        q["p"] = qdiff(nn / n2, (1.0 if renorm else pr[out]), self.qtol)
        q["p60"] = snap60(pr[out], self.qtol)
        return self._finish("measure", a, v, e, newpsi=new, q=q, obj="receiver" if inplace else "returned")

    # ---- canonical-form queries
    def _bond_query(self, ev, op):
        i = op["i"]
        a = {"i": i}
        dm = self.dims()
        v = self.dense()
        ref = schmidt_dense(v, dm, i)
        try:
            if ev == "schmidt_values":
                got = np.asarray(self.psi.schmidt_values(i, info=self.info))
                q = {"val": qd_sorted(got, ref, self.qtol), "desc": int(np.all(np.diff(got) <= 1e-12 * max(1.0, float(got[0]))))}
                q["s60"] = [snap60(x, self.qtol) for x in np.sort(got)[::-1]]
            elif ev == "singular_values":
                got = np.asarray(self.psi.singular_values(i, info=self.info))
                q = {"val": qd_sorted(got, np.sqrt(ref), self.qtol)}
            elif ev == "bipartite_schmidt_state":
                got = np.asarray(self.psi.bipartite_schmidt_state(i, get="ket-dense", info=self.info)).reshape(-1)
                n = int(round(math.sqrt(got.size)))
                M = got.reshape(n, n)
                q = {"val": qd_sorted(np.abs(np.diag(M)), np.sqrt(ref), self.qtol),
                     "offdiag": qdiff(M - np.diag(np.diag(M)), 0 * M, self.qtol)}
            elif ev == "entropy":
                got = self.psi.entropy(i, info=self.info)
                lam = ref[ref > 0]
                sc = max(1.0, float(np.abs(lam * np.log2(lam)).max()))
                q = {"val": qdiff(got / sc, float(-(lam * np.log2(lam)).sum()) / sc, max(self.qtol, 1e-7))}
                s = snap_int(got, 1e-6)
                q["ent"] = BAD if s == "OFFGRID" else s
            else:  # schmidt_gap
                got = self.psi.schmidt_gap(i, info=self.info)
                sc = max(1.0, float(ref[0]))     # the gap is a difference of numbers of this size
                q = {"val": qdiff(got / sc, (ref[0] - (ref[1] if ref.size > 1 else 0.0)) / sc, self.qtol), "gap60": snap60(got, self.qtol)}
        except Exception as ex:
            return self._fail(ev, a, ex)
        return self._finish(ev, a, v, v, q=q)

    def op_schmidt_values(self, op):
        return self._bond_query("schmidt_values", op)

    def op_singular_values(self, op):
        return self._bond_query("singular_values", op)

    def op_bipartite_schmidt_state(self, op):
        return self._bond_query("bipartite_schmidt_state", op)

    def op_entropy(self, op):
        return self._bond_query("entropy", op)

    def op_schmidt_gap(self, op):
        return self._bond_query("schmidt_gap", op)

    def op_magnetization(self, op):
        i, dr = op["i"], op["direction"]
        a = {"i": i, "direction": dr}
        dm = self.dims()
        v = self.dense()
        O = spin_ops(dm[i])[dr]
        ref = np.vdot(v, apply_op_dense(v, dm, O, [i]))
        try:
            got = self.psi.magnetization(i, direction=dr, info=self.info)
        except Exception as ex:
            return self._fail("magnetization", a, ex)
        sc = max(1.0, float(np.vdot(v, v).real))      # the value is a sum of terms of the size of <psi|psi>
        q = {"val": qdiff(got / sc, ref / sc, self.qtol), "m60": snap60(got, self.qtol)}
        return self._finish("magnetization", a, v, v, q=q)

    def _where(self, op):
        wi, wj = op["wi"], op["wj"]
        if wi == wj:
            return [wi]
        return [wj, wi] if op.get("flip") else [wi, wj]

    def op_partial_trace_canonical(self, op):
        where = self._where(op)
        normalized = bool(op.get("normalized", True))
        a = {"wi": op["wi"], "wj": op["wj"], "first": where[0], "normalized": normalized}
        dm = self.dims()
        v = self.dense()
        ref = rdm_dense(v, dm, where)
        if normalized:
            ref = ref / np.trace(ref)
        try:
            got = np.asarray(self.psi.partial_trace_to_dense_canonical(where[0] if len(where) == 1 and not op.get("astuple") else tuple(where),
                                                                      normalized=normalized, info=self.info))
        except Exception as ex:
            return self._fail("partial_trace_canonical", a, ex)
        q = {"val": qdiff(got, ref, self.qtol)}
        return self._finish("partial_trace_canonical", a, v, v, q=q)

    def op_local_expectation_canonical(self, op):
        where = self._where(op)
        normalized = bool(op.get("normalized", True))
        a = {"wi": op["wi"], "wj": op["wj"], "first": where[0], "normalized": normalized}
        dm = self.dims()
        v = self.dense()
        n = int(np.prod([dm[w] for w in where]))
        proj = op.get("proj")
        if proj is not None:   # projector on a computational pair (exact traces)
            G = np.zeros((n, n), dtype=complex)
            k = 0
            for w, b in zip(where, proj):
                k = k * dm[w] + b
            G[k, k] = 1.0
            a["pa"], a["pb"] = int(proj[0]), int(proj[-1])
        else:
            G = rand_op(self.rng, n, self.cplx)
        ref = np.vdot(v, apply_op_dense(v, dm, G, where))
        if normalized:
            ref = ref / np.vdot(v, v)
        try:
            got = self.psi.local_expectation_canonical(G.astype(self.dtype if proj is None else complex),
                                                       where[0] if len(where) == 1 else tuple(where),
                                                       normalized=normalized, info=self.info)
        except Exception as ex:
            return self._fail("local_expectation_canonical", a, ex)
        sc = 1.0 if normalized else max(1.0, float(np.vdot(v, v).real))
        q = {"val": qdiff(got / sc, ref / sc, self.qtol), "e60": snap60(got, self.qtol)}
        return self._finish("local_expectation_canonical", a, v, v, q=q)

    def op_compute_local_expectation_canonical(self, op):
        dm = self.dims()
        L = len(dm)
        inplace = bool(op.get("inplace", False))
        a = {"inplace": inplace, "nterms": int(op.get("nterms", 3))}
        v = self.dense()
        terms, ref = {}, 0.0
        for _ in range(a["nterms"]):
            i = int(self.rng.integers(L - 1))
            w = (i, i + 1) if self.rng.random() < 0.7 else (i,)
            if w in terms:
                continue
            G = rand_op(self.rng, int(np.prod([dm[x] for x in w])), self.cplx)
            terms[w] = G.astype(self.dtype)
            ref = ref + np.vdot(v, apply_op_dense(v, dm, G, list(w))) / np.vdot(v, v)
        try:
            got = self.psi.compute_local_expectation_canonical(terms, info=self.info, inplace=inplace)
        except Exception as ex:
            return self._fail("compute_local_expectation_canonical", a, ex)
        q = {"val": qdiff(got, ref, self.qtol)}
        return self._finish("compute_local_expectation_canonical", a, v, v, q=q)

    def _cfg_prob(self, v, dm, cfg):
        t = v.reshape(dm)
        return float(abs(t[tuple(int(c) for c in cfg)]) ** 2 / np.vdot(v, v).real)

    def op_sample_configuration(self, op):
        a = {"with_info": bool(op.get("with_info", True))}
        dm = self.dims()
        v = self.dense()
        seed = int(self.rng.integers(1 << 30))
        try:
            cfg, om = self.psi.sample_configuration(seed=seed, info=self.info if a["with_info"] else None)
        except Exception as ex:
            return self._fail("sample_configuration", a, ex)
        cfg = [int(c) for c in cfg]
        pr = self._cfg_prob(v, dm, cfg)
        s = snap_int(1.0 / max(float(om), 1e-300), 1e-6)
        q = {"val": qdiff(float(om), pr, self.qtol), "cfgs": [cfg], "inv": [BAD if s == "OFFGRID" else s]}
        return self._finish("sample_configuration", a, v, v, q=q)

    def op_sample(self, op):
        a = {"with_info": bool(op.get("with_info", True)), "C": int(op.get("C", 2))}
        dm = self.dims()
        v = self.dense()
        seed = int(self.rng.integers(1 << 30))
        try:
            res = list(self.psi.sample(a["C"], seed=seed, info=self.info if a["with_info"] else None))
        except Exception as ex:
            return self._fail("sample", a, ex)
        worst, cfgs, invs = 0, [], []
        for cfg, om in res:
            cfg = [int(c) for c in cfg]
            worst = max(worst, qdiff(float(om), self._cfg_prob(v, dm, cfg), self.qtol))
            cfgs.append(cfg)
            s = snap_int(1.0 / max(float(om), 1e-300), 1e-6)
            invs.append(BAD if s == "OFFGRID" else s)
        q = {"val": worst, "cfgs": cfgs, "inv": invs}
        return self._finish("sample", a, v, v, q=q)


# ----------------------------------------------------------------------------- CircuitMPS / CircuitPermMPS histories
# The circuit threads ONE record (circ.gate_opts["info"]) through every gate and every consumer; after each call the
# record is observed against the stored state circ._psi, and the consumer's value against the dense state.

_S2 = 2 ** -0.5
NAMED = {
    "H": np.array([[_S2, _S2], [_S2, -_S2]], dtype=complex),
    "X": np.array([[0, 1], [1, 0]], dtype=complex),
    "T": np.diag([1, np.exp(0.25j * np.pi)]).astype(complex),
    "CNOT": np.array([[1, 0, 0, 0], [0, 1, 0, 0], [0, 0, 0, 1], [0, 0, 1, 0]], dtype=complex),   # control = first qubit
    "CZ": np.diag([1, 1, 1, -1]).astype(complex),
    "SWAP": np.array([[1, 0, 0, 0], [0, 0, 1, 0], [0, 1, 0, 0], [0, 0, 0, 1]], dtype=complex),
}


class CircSess:
    def __init__(self, rng, tid, kind, N, trunc, psi0):
        import quimb.tensor as qtn

        self.rng, self.tid, self.seq, self.recs, self.last, self.dead = rng, tid, 0, [], None, False
        self.kind, self.N, self.trunc = kind, N, trunc
        self.itol, self.qtol = 1e-8, 1e-8
        kw = {"max_bond": 2} if trunc else {"cutoff": 0.0}
        cls = getattr(qtn, kind)
        if psi0:
            p0 = mps_from_arrays(random_arrays(rng, N, 2, 3, "complex128"))
            p0.normalize()
            self.circ = cls(N, psi0=p0, **kw)
        else:
            self.circ = cls(N, **kw)
        self.psi0 = bool(psi0)
        self.exp = self.phys().transpose(self._inv())      # expected state, logical qubit order
        self.exact_state = True

    # -- what is looked at
    @property
    def info(self):
        return self.circ.gate_opts["info"]

    def qubits(self):
        return [int(q) for q in getattr(self.circ, "qubits", range(self.N))]

    def _inv(self):
        qs = self.qubits()
        return [qs.index(q) for q in range(self.N)]

    def phys(self):
        """dense tensor of the stored MPS, axis s = physical site s"""
        return np.asarray(self.circ._psi.to_dense()).reshape((2,) * self.N)

    def emit(self, ev, args, extra=None, exc=""):
        rec = {"tid": self.tid, "seq": self.seq, "ev": ev, "args": dict(args, z=0), "exc": exc, "obj": "circuit._psi",
               "dtype": "complex128", "hist_tnorm": False, "circuit": self.kind}
        try:
            ob = observe(self.circ._psi, self.info, self.itol)
        except Exception as ex:
            ob = {"L": 2, "rec": [-3, -3], "isoL": [False, False], "isoR": [False, False],
                  "flags": [{"claim": False, "iso": False, "kind": "N"}] * 2}
            rec["exc"] = (exc + "|" if exc else "") + "observe:" + type(ex).__name__
            self.dead = True
        rec.update(ob)
        if extra:
            rec.update(extra)
        rec.setdefault("q", {"z": 0})
        self.recs.append(rec)
        self.seq += 1
        self.last = rec
        return rec

    def _after(self, ev, args, expect_phys, q=None):
        ex = {}
        try:
            post = self.phys()
            if not np.all(np.isfinite(post)):
                self.dead = True
                ex["dstate"] = 999998
            elif expect_phys is not None:
                ex["dstate"] = qdiff(post, expect_phys, self.qtol)
        except Exception:
            self.dead = True
            ex["dstate"] = 999990
        if q is not None:
            ex["q"] = dict(q, z=0)
        return self.emit(ev, args, ex)

    def init(self):
        return self.emit("circ_init", {"N": self.N, "trunc": self.trunc, "psi0": self.psi0})

    def do(self, op):
        return getattr(self, "op_" + op["ev"])(op)

    # -- gates
    def op_circ_gate(self, op):
        where = [int(w) for w in op["where"]]
        name = op.get("name", "raw")
        a = {"n": len(where), "first": where[0], "last": where[-1], "name": name, "adjacent": bool(len(where) == 1 or max(where) - min(where) == len(where) - 1)}
        U = NAMED[name] if name != "raw" else rand_unitary(self.rng, 2 ** len(where), True)
        try:
            if name == "raw":
                self.circ.apply_gate_raw(U, tuple(where))
            else:
                self.circ.apply_gate(name, *where)
        except Exception as ex:
            return self.emit("circ_gate", a, None, exc=type(ex).__name__)
        if self.trunc and len(where) > 1:
            self.exact_state = False
        expect = None
        if self.exact_state:
            self.exp = apply_op_dense(self.exp.reshape(-1), [2] * self.N, U, where).reshape((2,) * self.N)
            expect = self.exp.transpose(self.qubits())
        return self._after("circ_gate", a, expect)

    def op_circ_copy(self, op):
        try:
            self.circ = self.circ.copy()
        except Exception as ex:
            return self.emit("circ_copy", {}, None, exc=type(ex).__name__)
        return self._after("circ_copy", {}, None)

    # -- consumers (none of them may change the stored state)
    def _consume(self, ev, a, fn):
        P = self.phys()
        L = P.transpose(self._inv())
        try:
            q = fn(P, L)
        except Exception as ex:
            return self.emit(ev, a, None, exc=type(ex).__name__)
        return self._after(ev, a, P, q=q)

    def op_circ_sample(self, op):
        C = int(op.get("C", 2))
        seed = int(self.rng.integers(1 << 30))

        def fn(P, L):
            n2 = float(np.vdot(P, P).real)
            ok = 1
            for b in self.circ.sample(C, seed=seed):
                if len(b) != self.N or abs(L[tuple(int(c) for c in b)]) ** 2 / n2 < 1e-12:
                    ok = 0
            return {"p_ok": ok}
        return self._consume("circ_sample", {"C": C}, fn)

    def op_circ_local_expectation(self, op):
        where = [int(w) for w in op["where"]]
        normalized = bool(op.get("normalized", False))
        G = rand_op(self.rng, 2 ** len(where), True)

        def fn(P, L):
            v = L.reshape(-1)
            ref = np.vdot(v, apply_op_dense(v, [2] * self.N, G, where))
            n2 = float(np.vdot(v, v).real)
            if normalized:
                ref = ref / n2
            got = self.circ.local_expectation(G, where[0] if len(where) == 1 else tuple(where), normalized=normalized)
            sc = 1.0 if normalized else max(1.0, n2)
            return {"val": qdiff(got / sc, ref / sc, self.qtol)}
        return self._consume("circ_local_expectation", {"n": len(where), "first": where[0], "last": where[-1], "normalized": normalized}, fn)

    def op_circ_fidelity(self, op):
        err = bool(op.get("error", False))

        def fn(P, L):
            n2 = float(np.vdot(P, P).real)
            got = self.circ.error_estimate() if err else self.circ.fidelity_estimate()
            return {"val": qdiff(got, (1 - n2) if err else n2, self.qtol)}
        return self._consume("circ_fidelity", {"error": err}, fn)

    def op_circ_amplitude(self, op):
        b = "".join(str(int(x)) for x in self.rng.integers(0, 2, self.N))

        def fn(P, L):
            return {"val": qdiff(self.circ.amplitude(b), L[tuple(int(c) for c in b)], self.qtol)}
        return self._consume("circ_amplitude", {"b": b}, fn)

    def op_circ_to_dense(self, op):
        via = op.get("via", "to_dense")

        def fn(P, L):
            if via == "to_dense":
                got = np.asarray(self.circ.to_dense()).reshape(-1)
            else:   # the psi accessor: a copy labelled in logical qubit order
                psi = self.circ.psi if via == "psi" else self.circ.get_psi()
                got = np.asarray(psi.to_dense([psi.site_ind(i) for i in range(self.N)])).reshape(-1)
            return {"val": qdiff(got, L.reshape(-1), self.qtol)}
        return self._consume("circ_to_dense", {"via": via}, fn)
