"""C08 - an MPS's recorded canonical form is always true, and its consumers are correct.

TLC side : spec/C08/C08_MPSCanon.tla (record arithmetic of canonicalize / swaps / auto-swap gates /
           sub-MPO gates / compress_site / measure / canonical queries / sampling, the `left_inds` shortcut,
           which tensors each method rewrites and which isometries it establishes) checked against
           RecordSound / RecordInRange / FlagSound / ConsumerSound for every history of bounded depth;
           five self-test configurations (one repaired deviation each) must FAIL.
S->C     : behaviours simulated by TLC (model = the code as it is, Dev = {}) are replayed on random MPS (bond 2-4,
           phys 2-3, four dtypes) threading ONE info dict; every observation is judged by
           spec/C08/C08_Trace.tla and compared with the model state (NOTE:ModelDrift).
C->S     : seeded random histories over the public API (L <= 6) and histories on exact product / GHZ / W
           states whose query results TLC recomputes from C08_Defs.
"""

import concurrent.futures as cf
import json
import re
import warnings

import numpy as np

from .. import tlc as T
from ..ctx import MachineryError
from . import c08_util as U

DTYPES = ["float64", "complex128", "complex128", "float32", "complex64"]
ACTIONS = ("LeftCanonizeSite", "RightCanonizeSite", "Canonicalize", "ShiftCentre", "Gate1", "GateSplit", "GateAutoSwap",
           "GateSubMPO", "GateMPO", "SwapSitesA", "SwapSiteToA", "CompressSiteA", "CompressA", "Normalize",
           "TensorNormalize", "MeasureA", "BondQuery", "Magnetization", "LocalCanonical", "SampleA",
           "CallerForget", "CallerCalc")
# one named deviation each = what the code did before the corresponding fix: commit
SELFTESTS = (("MC_dev_swap.cfg", "RecordSoundInv", "swap_sites_with_compress keeping canonicalize's record for absorb='both' (fixed in 9081c46d)"),
             ("MC_dev_sample.cfg", "RecordSoundInv", "sample / sample_configuration writing the record of a dropped copy (fixed in 6a956e6e)"),
             ("MC_dev_measure.cfg", ("RecordSoundInv", "RecordInRangeInv"), "measure(L-1, remove=True) keeping record (L-1, L-1) (fixed in fe668b26)"),
             ("MC_dev_outcome.cfg", "RecordSoundInv", "measure(get='outcome') writing the record of a dropped copy (fixed in 761424b3)"),
             ("MC_dev_tnorm.cfg", "FlagSoundInv", "Tensor.normalize keeping the left_inds claim (fixed in fb49fbf5)"))
SUBMPO_METHODS = ["direct", "direct", "dm", "zipup", "sdc", "fit", "src", "srcmps"]


# ----------------------------------------------------------------------------- S->C replay

def _build_initial(rng, st, tid):
    L = int(st["L"])
    d = int(rng.choice([2, 2, 3]))
    chi = int(rng.choice([2, 3, 4]))
    dtype = str(rng.choice(DTYPES))
    psi = U.mps_from_arrays(U.random_arrays(rng, L, d, chi, dtype, full_rank=bool(rng.random() < 0.7)))
    rec = [int(st["rec"][0]), int(st["rec"][1])]
    if rec[0] >= 0:
        psi.canonicalize_(rec[0])
        if all(f == "N" for f in st["flag"]):
            for t in psi:
                t.modify(left_inds=None)
    s = U.Sess(psi, dtype, rng, tid)
    return s, rec


def _op_of(act, rng, s):
    """model action -> one public call (free choices that the abstract state does not see are the driver's)"""
    op = act["op"]
    b = lambda p=0.5: bool(rng.random() < p)  # noqa
    if op in ("left_canonize_site", "right_canonize_site"):
        return {"ev": op, "i": act["i"]}
    if op == "canonicalize":
        return {"ev": op, "wi": act["wi"], "wj": act["wj"], "inplace": b(), "astuple": b(), "flip": b()}
    if op == "shift":
        return {"ev": op, "cur": act["cur"], "new": act["new"]}
    if op == "gate1":
        return {"ev": op, "i": act["i"], "unitary": act["unitary"], "inplace": b()}
    if op == "gate_split":
        return {"ev": op, "i": act["i"], "absorb": act["absorb"], "rev": act["rev"], "inplace": b(), "unitary": b(0.7), "trunc": b(0.15)}
    if op == "gate_with_auto_swap":
        return {"ev": op, "i": act["i"], "j": act["j"], "swap_back": act["swap_back"], "inplace": b(), "unitary": b(0.7),
                "via": str(rng.choice(["method", "method", "swap+split", "auto-mps"]))}
    if op == "gate_with_submpo":
        si, sf = act["si"], act["sf"]
        where = [si, sf]
        if sf - si >= 2 and b(0.3) and s.dims()[0] == 2:
            where = [si, int(rng.integers(si + 1, sf)), sf]
        if b(0.3):
            where = where[::-1]
        return {"ev": op, "where": where, "rev": act["rev"], "inplace": b(), "unitary": b(0.7),
                "method": "fit" if act.get("fit") else str(rng.choice(["direct", "direct", "dm", "zipup", "sdc"])),
                "fit_its": int(rng.integers(0, 4)), "via": str(rng.choice(["gate_nonlocal", "gate", "submpo"]))}
    if op == "gate_with_mpo":
        return {"ev": op, "rev": act["rev"], "inplace": b()}
    if op == "swap_sites":
        return {"ev": op, "i": act["i"], "j": act["j"], "absorb": act["absorb"], "inplace": b(), "trunc": b(0.1)}
    if op == "swap_site_to":
        return {"ev": op, "i": act["i"], "f": act["f"], "absorb": act["absorb"], "inplace": b()}
    if op == "compress_site":
        return {"ev": op, "i": act["i"], "trunc": b(0.2)}
    if op == "compress":
        return {"ev": op, "form": act["form"], "c": act["c"], "trunc": b(0.2)}
    if op == "normalize":
        return {"ev": op, "insert": act["insert"]}
    if op == "tensor_normalize":
        return {"ev": op, "i": act["i"]}
    if op == "measure":
        return {"ev": op, "site": act["site"], "remove": act["remove"], "outcome_only": act["outcome_only"],
                "inplace": act["inplace"], "renorm": b(0.8), "fixed": b(0.4)}
    if op == "bond_query":
        return {"ev": str(rng.choice(["schmidt_values", "entropy", "schmidt_gap", "singular_values", "bipartite_schmidt_state"])), "i": act["i"]}
    if op == "magnetization":
        return {"ev": op, "i": act["i"], "direction": str(rng.choice(["X", "Y", "Z", "Z"]))}
    if op == "local_canonical":
        return {"ev": str(rng.choice(["partial_trace_canonical", "local_expectation_canonical"])), "wi": act["wi"], "wj": act["wj"],
                "flip": b(), "normalized": b(0.7), "astuple": b()}
    if op == "sample":
        return {"ev": "sample" if act["many"] else "sample_configuration", "C": 2, "with_info": True}
    if op in ("forget", "calc"):
        return {"ev": op, "clear": bool(act.get("clear", True))}
    raise MachineryError("unknown model action %r" % (act,))


def replay_behaviour(states, rng, tid):
    s, rec = _build_initial(rng, states[0], tid)
    exactrec = True
    r0 = s.init(rec=rec)
    r0["model"] = _model_of(states[0], exactrec)
    for st in states[1:]:
        act = st["act"]
        if act["op"] == "calc":
            exactrec = False          # from here on the real detector may see more isometries than the model guarantees
        op = _op_of(act, rng, s)
        if op["ev"] == "shift":
            # the caller passes the centre that the REAL record names; if the model has drifted from the code and the
            # real record is no single site (or already the target) the behaviour cannot be followed any further
            real = U.rec_of(s.info)
            if real[0] < 0 or real[0] != real[1] or real[0] == op["new"]:
                break
            op["cur"] = real[0]
        r = s.do(op)
        r["model"] = _model_of(st, exactrec)
        if r["exc"] or s.dead:
            break
    return s.recs


def _model_of(st, exactrec):
    return {"L": int(st["L"]), "rec": [int(st["rec"][0]), int(st["rec"][1])], "isoL": [bool(v) for v in st["isoL"]],
            "isoR": [bool(v) for v in st["isoR"]], "flag": [str(v) for v in st["flag"]], "exactrec": bool(exactrec)}


def split_behaviours(vals):
    return [v for v in vals if isinstance(v, list) and len(v) > 1 and all(isinstance(x, dict) and x.get("depth") == k for k, x in enumerate(v))]


def pick_behaviours(behs, rng, per_prefix=1):
    """the simulator prints every candidate last step of each of its traces: keep a few per common prefix"""
    groups = {}
    for bh in behs:
        groups.setdefault(json.dumps(bh[:-1], sort_keys=True), []).append(bh)
    out = []
    for key in sorted(groups):
        g = groups[key]
        for k in rng.choice(len(g), size=min(per_prefix, len(g)), replace=False):
            out.append(g[int(k)])
    return out


# ----------------------------------------------------------------------------- C->S random histories

def _pick(rng, items):
    names = [n for n, w in items]
    w = np.array([w for n, w in items], dtype=float)
    return names[int(rng.choice(len(names), p=w / w.sum()))]


WALK_OPS = [("canonicalize", 8), ("left_canonize_site", 2), ("right_canonize_site", 2), ("left_canonicalize", 1),
            ("right_canonicalize", 1), ("shift", 2), ("gate1", 4), ("gate_split", 5), ("gate_with_auto_swap", 6),
            ("gate_with_submpo", 5), ("gate_with_mpo", 1), ("swap_sites", 7), ("swap_site_to", 4), ("compress_site", 3),
            ("compress", 3), ("normalize", 2), ("tensor_normalize", 0.6), ("measure", 5), ("schmidt_values", 2), ("entropy", 2),
            ("schmidt_gap", 1), ("singular_values", 1), ("bipartite_schmidt_state", 1), ("magnetization", 4),
            ("partial_trace_canonical", 3), ("local_expectation_canonical", 3), ("compute_local_expectation_canonical", 1.5),
            ("sample_configuration", 1.5), ("sample", 1), ("forget", 1), ("calc", 1.5)]
EXACT_OPS = [("canonicalize", 5), ("left_canonize_site", 1), ("right_canonize_site", 1), ("shift", 1), ("swap_sites", 4),
             ("swap_site_to", 2), ("compress_site", 1), ("compress", 1), ("measure", 3), ("schmidt_values", 4), ("entropy", 2),
             ("schmidt_gap", 2), ("magnetization", 6), ("local_expectation_canonical", 4), ("sample_configuration", 3),
             ("sample", 1), ("forget", 0.5), ("calc", 0.5)]


def gen_op(rng, s, ev, exact):
    """arguments for one call that is valid on the current state (None if the call does not apply)"""
    L = s.psi.L
    d = s.dims()[0]
    b = lambda p=0.5: bool(rng.random() < p)  # noqa
    ri = lambda lo, hi: int(rng.integers(lo, hi))  # noqa  [lo, hi)
    rec = U.rec_of(s.info)
    if ev == "canonicalize":
        wi = ri(0, L)
        wj = wi if b(0.6) else ri(wi, L)
        return {"ev": ev, "wi": wi, "wj": wj, "inplace": b(0.6), "astuple": b(), "flip": b()}
    if ev == "left_canonize_site":
        return {"ev": ev, "i": ri(0, L - 1)}
    if ev == "right_canonize_site":
        return {"ev": ev, "i": ri(1, L)}
    if ev == "left_canonicalize":
        start = ri(0, L - 1)
        return {"ev": ev, "start": start, "stop": ri(start, L), "inplace": b(0.7)}
    if ev == "right_canonicalize":
        start = ri(1, L)
        return {"ev": ev, "start": start, "stop": ri(0, start + 1), "inplace": b(0.7)}
    if ev == "shift":
        if rec[0] < 0 or rec[0] != rec[1] or L < 2:
            return None
        new = ri(0, L)
        return None if new == rec[0] else {"ev": ev, "cur": rec[0], "new": new}
    if ev == "gate1":
        return {"ev": ev, "i": ri(0, L), "unitary": b(0.7), "inplace": b(0.7)}
    if ev == "gate_split":
        return {"ev": ev, "i": ri(0, L - 1), "absorb": str(rng.choice(["left", "right", "both"])), "rev": b(0.4),
                "inplace": b(0.7), "unitary": b(0.7), "trunc": b(0.15)}
    if ev == "gate_with_auto_swap":
        i, j = (int(v) for v in rng.choice(L, 2, replace=False))
        return {"ev": ev, "i": i, "j": j, "swap_back": b(0.7), "inplace": b(0.6), "unitary": b(0.7),
                "via": str(rng.choice(["method", "method", "swap+split", "auto-mps"]))}
    if ev == "gate_with_submpo":
        n = 3 if (L >= 4 and d == 2 and b(0.3)) else 2
        where = sorted(int(v) for v in rng.choice(L, n, replace=False))
        if b(0.3):
            where = where[::-1]
        return {"ev": ev, "where": where, "rev": b(), "inplace": b(0.6), "unitary": b(0.7), "fit_its": ri(0, 4),
                "method": str(rng.choice(SUBMPO_METHODS)), "via": str(rng.choice(["gate_nonlocal", "gate", "submpo"]))}
    if ev == "gate_with_mpo":
        return {"ev": ev, "rev": b(), "inplace": b()}
    if ev == "swap_sites":
        i, j = (int(v) for v in rng.choice(L, 2, replace=False))
        if b(0.5):
            i = ri(0, L - 1)
            j = i + 1
            if b(0.3):
                i, j = j, i
        return {"ev": ev, "i": i, "j": j, "absorb": str(rng.choice(["default", "default", "left", "right", "both"])),
                "inplace": b(0.6), "trunc": (not exact) and b(0.1)}
    if ev == "swap_site_to":
        i, f = (int(v) for v in rng.choice(L, 2, replace=False))
        return {"ev": ev, "i": i, "f": f, "absorb": str(rng.choice(["default", "default", "default", "left", "right", "both"])), "inplace": b(0.6)}
    if ev == "compress_site":
        return {"ev": ev, "i": ri(0, L), "trunc": (not exact) and b(0.2)}
    if ev == "compress":
        form = str(rng.choice(["right", "left", "flat", "int", "int"]))
        return {"ev": ev, "form": form, "c": ri(0, L) if form == "int" else 0, "trunc": (not exact) and b(0.2)}
    if ev == "normalize":
        return {"ev": ev, "insert": ri(0, L) if b(0.6) else L - 1}
    if ev == "tensor_normalize":
        return {"ev": ev, "i": ri(0, L)}
    if ev == "measure":
        remove = L >= 3 and b(0.4)
        site = ri(0, L)
        if remove and b(0.3):
            site = L - 1
        oonly = (not remove) and b(0.15)
        return {"ev": ev, "site": site, "remove": remove, "outcome_only": oonly, "inplace": b(0.4),
                "renorm": True if exact else b(0.8), "fixed": b(0.4)}
    if ev in ("schmidt_values", "entropy", "schmidt_gap", "singular_values", "bipartite_schmidt_state"):
        return {"ev": ev, "i": ri(1, L)}
    if ev == "magnetization":
        dirs = ["X", "Y", "Z"] if exact else ["X", "Y", "Z", "Z", "+"]
        return {"ev": ev, "i": ri(0, L), "direction": str(rng.choice(dirs))}
    if ev in ("partial_trace_canonical", "local_expectation_canonical"):
        wi = ri(0, L)
        wj = wi if b(0.4) else ri(wi, L)
        if exact:
            if L < 2:
                return None
            wi, wj = sorted(int(v) for v in rng.choice(L, 2, replace=False))
            return {"ev": ev, "wi": wi, "wj": wj, "flip": b(), "normalized": True, "proj": [ri(0, 2), ri(0, 2)]}
        if wj - wi > 3 and d == 3:
            wj = wi + 1
        return {"ev": ev, "wi": wi, "wj": wj, "flip": b(), "normalized": b(0.7), "astuple": b()}
    if ev == "compute_local_expectation_canonical":
        return {"ev": ev, "inplace": b(), "nterms": ri(1, 4)}
    if ev == "sample_configuration":
        return {"ev": ev, "with_info": b(0.3 if exact else 0.6)}
    if ev == "sample":
        return {"ev": ev, "C": ri(1, 4), "with_info": b(0.3 if exact else 0.6)}
    if ev in ("forget", "calc"):
        return {"ev": ev, "clear": b()}
    return None


def walk(rng, s, length, exact=False):
    s_ops = EXACT_OPS if exact else WALK_OPS
    n = 0
    while n < length:
        last = s.last
        if last is not None and not U.rec_sound_py(last):
            # a user cannot go on with a record that is wrong: drop stale claims / the record (logged as events)
            if any(f["claim"] and not f["iso"] for f in last["flags"]):
                for t in s.psi:
                    t.modify(left_inds=None)
                s.emit("drop_claims", {})
            if not U.rec_sound_py(s.last):
                s.do({"ev": "forget" if rng.random() < 0.5 else "calc", "clear": True})
            n += 1
            continue
        op = gen_op(rng, s, _pick(rng, s_ops), exact)
        if op is None:
            continue
        if s.psi.L < 2:
            break
        r = s.do(op)
        n += 1
        if r["exc"] or s.dead:
            break
    return s.recs


def random_history(seed, tid, length, Lmax=6):
    rng = np.random.default_rng(seed)
    L = int(rng.integers(3, Lmax + 1))
    d = int(rng.choice([2, 2, 3]))
    chi = int(rng.choice([2, 3, 4]))
    dtype = str(rng.choice(DTYPES))
    psi = U.mps_from_arrays(U.random_arrays(rng, L, d, chi, dtype, full_rank=bool(rng.random() < 0.7)))
    s = U.Sess(psi, dtype, rng, tid)
    k = rng.random()
    if k < 0.35:
        s.init()
    elif k < 0.7:
        c = int(rng.integers(L))
        psi.canonicalize_(c)
        s.init(rec=[c, c])
    else:   # the caller states a (sound) range, or passes 'calc'
        s.init(rec=[-2, -2])
    return walk(rng, s, length)


LABELS = ["0", "1", "+", "-", "i+", "i-"]


def exact_history(seed, tid, length):
    rng = np.random.default_rng(seed)
    kind = str(rng.choice(["prod", "ghz", "w"]))
    L = int(rng.integers(2 if kind == "prod" else 3, 7))
    sites = [str(rng.choice(LABELS)) for _ in range(L)] if kind == "prod" else []
    arrs = U.exact_arrays(kind, L, sites)
    if kind == "prod":   # give the product state a non trivial (rank deficient) bond structure
        arrs = [np.concatenate([a, 0 * a], axis=1) if i < L - 1 else a for i, a in enumerate(arrs)]
        arrs = [np.concatenate([a, 0 * a], axis=0) if i > 0 else a for i, a in enumerate(arrs)]
    arrs = U.gauge_scramble(rng, arrs, "complex128")
    psi = U.mps_from_arrays(U.squeeze_ends(arrs))
    s = U.Sess(psi, "complex128", rng, tid, exact={"kind": kind, "L": L, "sites": sites})
    s.init()
    return walk(rng, s, length, exact=True)


def trace_selftest(ctx):
    """the Trace spec must reject a corrupted observation (and accept the genuine one)"""
    import copy
    import os

    rng = np.random.default_rng(5)
    s = U.Sess(U.mps_from_arrays(U.random_arrays(rng, 4, 2, 3, "complex128")), "complex128", rng, 1)
    s.init()
    s.do({"ev": "canonicalize", "wi": 2, "wj": 2})
    s.do({"ev": "schmidt_values", "i": 1})
    good = copy.deepcopy(s.recs)
    bad = copy.deepcopy(s.recs)
    for r in bad:
        r["tid"] = 2
    bad[1]["rec"] = [0, 0]            # a record that the measured isometries do not support
    bad2 = copy.deepcopy(s.recs)
    for r in bad2:
        r["tid"] = 3
    bad2[1]["flags"][0]["iso"] = False  # a claim on a tensor that is not isometric
    bad3 = copy.deepcopy(s.recs)
    for r in bad3:
        r["tid"] = 4
    bad3[2]["q"]["val"] = 7           # a query result away from the dense value
    path = ctx.write_trace(good + bad + bad2 + bad3, "selftest")
    verdict, _ = T.validate_trace("C08_Trace", "Trace.cfg", ctx.spec_dir, path, scratch=ctx.scratch)
    got = sorted((f["line"], f["clause"]) for f in verdict["fails"] if not f["clause"].startswith("NOTE:"))
    want = [(5, "RecordSound"), (8, "FlagSound"), (12, "SchmidtValues")]
    if got != want:
        raise MachineryError("trace self-test: expected %s, got %s" % (want, got))
    os.remove(path)
    ctx.extra["trace_selftest"] = "corrupted record / claim rejected by the Trace spec: %s" % (got,)


CIRC_OPS = [("circ_gate", 10), ("circ_sample", 3), ("circ_local_expectation", 4), ("circ_fidelity", 2), ("circ_amplitude", 1),
            ("circ_to_dense", 1.5), ("circ_copy", 0.5)]


def circuit_history(seed, tid, length):
    """gates on a CircuitMPS / CircuitPermMPS interleaved with its consumers; the record is circ.gate_opts['info']"""
    rng = np.random.default_rng(seed)
    kind = "CircuitPermMPS" if rng.random() < 0.3 else "CircuitMPS"
    N = int(rng.integers(3, 7))
    s = U.CircSess(rng, tid, kind, N, trunc=bool(rng.random() < 0.25), psi0=bool(rng.random() < 0.3))
    s.init()
    perm = kind == "CircuitPermMPS"
    n = 0
    while n < length and not s.dead:
        ev = _pick(rng, CIRC_OPS) if n >= 2 else "circ_gate"
        if ev == "circ_gate":
            k = rng.random()
            if k < 0.3:
                op = {"ev": ev, "where": [int(rng.integers(N))], "name": str(rng.choice(["raw", "raw", "H", "X", "T"]))}
            elif k < 0.92 or perm or N < 3:
                i, j = (int(v) for v in rng.choice(N, 2, replace=False))
                names = ["raw", "raw", "raw", "CNOT", "CZ"] + ([] if perm else ["SWAP"])
                op = {"ev": ev, "where": [i, j], "name": str(rng.choice(names))}
            else:
                op = {"ev": ev, "where": [int(v) for v in rng.choice(N, 3, replace=False)], "name": "raw"}
        elif ev == "circ_local_expectation":
            w = [int(rng.integers(N))] if (rng.random() < 0.5 or perm) else sorted(int(v) for v in rng.choice(N, 2, replace=False))
            if len(w) == 2 and rng.random() < 0.3:
                w = w[::-1]
            op = {"ev": ev, "where": w, "normalized": bool(rng.random() < 0.5)}
        elif ev == "circ_fidelity":
            op = {"ev": ev, "error": bool(rng.random() < 0.3)}
        elif ev == "circ_to_dense":
            op = {"ev": ev, "via": str(rng.choice(["to_dense", "psi", "get_psi"]))}
        elif ev == "circ_sample":
            op = {"ev": ev, "C": int(rng.integers(1, 4))}
        else:
            op = {"ev": ev}
        r = s.do(op)
        n += 1
        if r["exc"]:
            break
        if not U.rec_sound_py(r):
            # the circuit owns its record: show what its consumers make of it, then stop
            if not s.dead:
                s.do({"ev": "circ_local_expectation", "where": [0], "normalized": False})
            if not s.dead:
                s.do({"ev": "circ_fidelity", "error": False})
            break
    return s.recs


# ----------------------------------------------------------------------------- check

def run(ctx):
    warnings.simplefilter("ignore")
    quick = ctx.tier == "quick"

    # 1. TLC: every bounded history of the implementation-shaped model (with the minimal repairs) keeps the
    #    record sound; each code deviation alone must be found
    with cf.ThreadPoolExecutor(max_workers=6) as ex:
        futs = [(cfg, want, what, ex.submit(T.run_tlc, "MC_C08", cfg, ctx.spec_dir, workers=1, allow_violation=True,
                                            scratch=ctx.scratch, timeout=600)) for cfg, want, what in SELFTESTS]
        # random deep behaviours of the same model on 6 sites (simulation mode, invariants checked on every state)
        deep = ex.submit(T.run_tlc, "MC_C08", "MC_deep.cfg", ctx.spec_dir, workers=1, simulate="num=%d" % (250 if quick else 4000),
                         depth=12, seed=7 + ctx.seed, scratch=ctx.scratch, timeout=1800)
        ctx.model_check("MC_C08", "MC_quick.cfg" if quick else "MC_thorough.cfg", name="canon-histories",
                        require_actions=ACTIONS, timeout=2400, workers=8 if quick else 12)
        rs = deep.result()
        m = re.findall(r"The number of states generated: (\d+)", rs.output)
        d = rs.as_dict()
        d.update(name="deep-simulation L=6 depth<=12 (simulation mode: states checked, not distinct)", generated=int(m[-1]) if m else 0)
        ctx.mc.append(d)
        for cfg, want, what, fu in futs:
            r = fu.result()
            want = (want,) if isinstance(want, str) else want
            if r.violated not in want:
                raise MachineryError("model self-test %s: expected %s to be violated, got %r" % (cfg, want, r.violated))
            ctx.extra.setdefault("model_selftests", []).append("%s: TLC finds a %s counterexample (%s)" % (cfg, r.violated, what))

    trace_selftest(ctx)

    # 2. S->C: behaviours of the model (code as it is) replayed into quimb
    nsim = 80 if quick else 900
    res = T.run_tlc("MC_C08", "MC_sim.cfg", ctx.spec_dir, workers=1, coverage=False, simulate="num=%d" % nsim,
                    depth=10, seed=23 + ctx.seed, scratch=ctx.scratch, timeout=1200)
    rng = np.random.default_rng(1000 + ctx.seed)
    behs = pick_behaviours(split_behaviours(T.parse_printed_json(res.output)), rng, 1 if quick else 2)
    if len(behs) < nsim // 2:
        raise MachineryError("could not read the simulated behaviours back (%d of %d)" % (len(behs), nsim))
    recs = []
    for k, bh in enumerate(behs):
        recs += replay_behaviour(bh, rng, k)
    ctx.sample({"replayed_behaviour": [s["act"] for s in behs[0]]})
    for r in recs:
        r["src"] = "replay"
    ctx.extra["replayed_behaviours"] = len(behs)
    ctx.extra["replayed_steps"] = len(recs)

    # 3. C->S: random histories over the public API
    nt, ln = (150, 12) if quick else (2500, 14)
    wrecs = []
    for k in range(nt):
        wrecs += random_history(ctx.seed * 1000003 + k, 100000 + k, ln)
    ctx.sample({"history": [(r["ev"], {a: b for a, b in r["args"].items() if a != "z"}, r["rec"]) for r in wrecs[:13]]})
    for r in wrecs:
        r["src"] = "walk"

    # 4. C->S on exact states: TLC recomputes the query results from C08_Defs
    ne, le = (60, 10) if quick else (900, 12)
    xrecs = []
    for k in range(ne):
        xrecs += exact_history(ctx.seed * 7000003 + 17 + k, 200000 + k, le)
    ctx.sample({"exact_history": [(r["ev"], {a: b for a, b in r["args"].items() if a != "z"}, {a: b for a, b in r["q"].items() if a != "z"})
                                  for r in xrecs[:8]]})
    for r in xrecs:
        r["src"] = "exact"
    # 5. C->S: circuits (CircuitMPS / CircuitPermMPS) threading their own record through gates and consumers
    nc, lc = (70, 10) if quick else (900, 12)
    crecs = []
    for k in range(nc):
        crecs += circuit_history(ctx.seed * 9000011 + 29 + k, 300000 + k, lc)
    ctx.sample({"circuit_history": [(r["ev"], {a: b for a, b in r["args"].items() if a != "z"}, r["rec"]) for r in crecs[:10]]})
    for r in crecs:
        r["src"] = "circuit"
    # one TLC start judges all four sources (records of one history stay together; `src` names the source)
    fails = ctx.validate("C08_Trace", "Trace.cfg", recs + wrecs + xrecs + crecs, name="histories", ntraces=len(behs) + nt + ne + nc)
    ctx.extra["records_by_source"] = {"replay": len(recs), "walk": len(wrecs), "exact": len(xrecs), "circuit": len(crecs)}
    ctx.extra["circuit_steps"] = len(crecs)
    ctx.extra["walk_steps"] = len(wrecs)
    ctx.extra["exact_steps"] = len(xrecs)
    ctx.extra["rejected_calls"] = sorted({"%s:%s" % (r["ev"], r["exc"]) for r in recs + wrecs + xrecs + crecs if r["exc"]})[:20]

    notes = [f for f in fails if f["clause"].startswith("NOTE:")]
    seen = {}
    for n in notes:
        key = "%s at %s" % (n["clause"], n["record"]["ev"])
        seen[key] = seen.get(key, 0) + 1
    for k in sorted(seen):
        ctx.notes.append("%s (%d steps)" % (k, seen[k]))
    ctx.extra["model_drift_steps"] = len(notes)
    ctx.clauses.update(["Returns", "RecordInRange", "RecordSound", "FlagSound", "Establishes", "Documented", "StateAsExpected",
                        "PostMeasurementState", "MeasurementProbability", "SchmidtValues", "Entropy", "SchmidtGap", "Magnetization",
                        "ReducedDensity", "LocalExpectation", "SampleProbability", "ExactValue", "CircuitQuery",
                        "model: RecordSoundInv RecordInRangeInv FlagSoundInv ConsumerSound TypeOK"])
    ctx.assumptions += [
        "assume-guarantee reading: a call is judged only when the record (and the left_inds claims) it was given were sound on the "
        "object it was called on; the first call of every history starts from a sound record",
        "a record describes the receiver after an in-place call or a query, and the returned state after a call that returns a new state",
        "methods without record argument (left/right_canonize_site, left/right_canonicalize, shift_orthogonality_center, gate(contract=True), "
        "gate_split, compress(form), gate_with_mpo, normalize, Tensor.normalize) are followed by the caller's own update of the record from "
        "what their documentation promises (C08_Defs!CallerRecord); a non-unitary 1-site gate(contract=True) is treated as rewriting its site "
        "(its info argument is a sink for singular values, not a record)",
        "Schmidt values / entropy / magnetization are compared with the same functional of the dense vector without normalising it "
        "(they coincide with the textbook values on normalised states); entropy is in bits",
        "isometry tolerance 1e-8 (double) / 5e-4 (single); query tolerance 1e-8 / 2e-3 relative",
        "circuits: the record circ.gate_opts['info'] is judged against the stored state circ._psi after every gate and consumer; "
        "the gate semantics themselves (named gate matrices, parameters) belong to C07",
        "compress_site(canonize=False), cyclic MPS, bra= arguments, method='lazy' and CircuitMPSLazy are not exercised",
    ]
    for f in fails:
        f["record"] = {k: v for k, v in f["record"].items() if k != "model"}
    ctx.judge([f for f in fails if not f["clause"].startswith("NOTE:")])
