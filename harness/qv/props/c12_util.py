"""C12 helpers: integer lattices / graphs, plain-numpy contraction, observation of boundaries.

Nothing here calls the quimb routines under test to *measure*: values are contracted with numpy
(tensordot) from the public tensor data, bond sizes are read from `inds` / `shape`, merged sites are
read from the tags of the tensors.
"""

import itertools
import re

import numpy as np

from ..snap import OFFGRID, snap_garray, snap_gint

VALSETS = ([-2, -1, 1, 2, 3], [-2, -1, 1, 2], [-1, 1, 2], [-1, 1])
LIMIT = 2 ** 29          # exact values (and every partial sum TLC forms) stay below this
SNAPTOL = 1e-6


def rint(g, shape, cplx, vals):
    v = np.asarray(vals)
    a = v[g.integers(0, len(v), size=tuple(shape))].astype(float)
    if cplx:
        a = a + 1j * g.integers(-1, 2, size=tuple(shape))
    return a


# ----------------------------------------------------------------------------- plain contraction
def contract_plain(tensors):
    """value of a closed network given as [(inds, array)], pairwise numpy.tensordot, greedy order.
    Labels shared by exactly two tensors are summed; dangling labels make the result non-scalar
    (returned as (labels, array))."""
    ts = [(tuple(i), np.asarray(a).astype(complex)) for i, a in tensors]
    scal = 1.0 + 0j
    live = []
    for inds, a in ts:
        if len(inds) == 0:
            scal = scal * complex(a)
        else:
            live.append((inds, a))
    while len(live) > 1:
        best = None
        for x in range(len(live)):
            sx = set(live[x][0])
            for y in range(x + 1, len(live)):
                sh = sx & set(live[y][0])
                if not sh:
                    continue
                size = 1
                for i, d in zip(live[x][0], live[x][1].shape):
                    if i not in sh:
                        size *= d
                for i, d in zip(live[y][0], live[y][1].shape):
                    if i not in sh:
                        size *= d
                if best is None or size < best[0]:
                    best = (size, x, y, sh)
        if best is None:
            # disconnected components: outer product of the two smallest
            x, y, sh = 0, 1, set()
        else:
            _, x, y, sh = best
        ia, a = live[x]
        ib, b = live[y]
        shl = [i for i in ia if i in sh]
        ax_a = [ia.index(i) for i in shl]
        ax_b = [ib.index(i) for i in shl]
        c = np.tensordot(a, b, axes=(ax_a, ax_b))
        ic = tuple(i for i in ia if i not in sh) + tuple(i for i in ib if i not in sh)
        live = [t for k, t in enumerate(live) if k not in (x, y)]
        if len(ic) == 0:
            scal = scal * complex(c)
        else:
            live.append((ic, c))
    if live:
        inds, a = live[0]
        # trace out labels that occur twice on the last tensor
        while len(set(inds)) < len(inds):
            for i in inds:
                if inds.count(i) == 2:
                    p, q = [k for k, z in enumerate(inds) if z == i]
                    a = np.trace(a, axis1=p, axis2=q)
                    inds = tuple(z for z in inds if z != i)
                    break
        if len(inds) == 0:
            return scal * complex(a)
        return inds, scal * a
    return scal


def tn_tensors(tn):
    return [(tuple(t.inds), np.asarray(t.data)) for t in tn.tensors]


def tn_value(tn):
    """(dangling, value) of a network with its stored exponent, plain numpy"""
    v = contract_plain(tn_tensors(tn))
    if isinstance(v, tuple):
        return len(v[0]), None
    e = float(getattr(tn, "exponent", 0.0) or 0.0)
    return 0, v * 10.0 ** e


def net_json(tensors):
    return [{"inds": list(i), "shape": [int(d) for d in np.shape(a)], "data": snap_garray(a)} for i, a in tensors]


def put_value(rec, key, v):
    """snap a complex value into rec[key] (+ rec['ongrid'])"""
    s = OFFGRID
    if v is not None:
        try:
            if np.isfinite(complex(v)):
                s = snap_gint(v, SNAPTOL)
        except Exception:
            s = OFFGRID
    if s == OFFGRID:
        rec["ongrid"] = False
        rec[key] = [0, 0]
        try:
            rec["raw"] = repr(complex(v))[:60]
        except Exception:
            rec["raw"] = str(v)[:60]
    else:
        rec["ongrid"] = True
        rec[key] = s


def shared_size(ta, tb):
    sz = 1
    for i, d in zip(ta.inds, ta.shape):
        if i in tb.inds:
            sz *= int(d)
    return sz


def group_bond(tn, tids_a, tids_b):
    """product of the sizes of the labels joining a tensor of group a to a tensor of group b"""
    seen = {}
    for x in tids_a:
        tx = tn.tensor_map[x]
        for y in tids_b:
            if x == y:
                continue
            ty = tn.tensor_map[y]
            for i, d in zip(tx.inds, tx.shape):
                if i in ty.inds:
                    seen[i] = int(d)
    sz = 1
    for d in seen.values():
        sz *= d
    return sz, len(seen)


# ----------------------------------------------------------------------------- geometry
class Geo:
    """numbering of sites and parsing of site tags for the three geometry kinds"""

    def __init__(self, kind, dims):
        self.kind, self.dims = kind, tuple(dims)
        if kind == "2d":
            self.rx = re.compile(r"^I(\d+),(\d+)$")
        elif kind == "3d":
            self.rx = re.compile(r"^I(\d+),(\d+),(\d+)$")
        else:
            self.rx = re.compile(r"^I(\d+)$")

    @property
    def nsites(self):
        n = 1
        for d in self.dims:
            n *= d
        return n

    def sid(self, *coo):
        k = 0
        for c, d in zip(coo, self.dims):
            k = k * d + c
        return k + 1

    def sites_of_tags(self, tags):
        out = set()
        for g in tags:
            m = self.rx.match(g)
            if m:
                out.add(self.sid(*[int(x) for x in m.groups()]))
        return out

    def sites_of(self, tn, tids):
        out = set()
        for t in tids:
            out |= self.sites_of_tags(tn.tensor_map[t].tags)
        return out


def cross(edges, A, B):
    sz = 1
    for u, v, s in edges:
        if (u in A and v in B) or (u in B and v in A):
            sz *= s
    return sz


# ----------------------------------------------------------------------------- builders
def dims_budget(sizes, budget):
    p = 1
    for s in sizes:
        p *= s
    return p <= budget


def build_lattice2d(g, Lx, Ly, hb, vb, cyc=(False, False), cplx=False, vals=VALSETS[0], phys=None, dtype=None):
    """Lx x Ly lattice with bond (i,j)-(i,j+1) of size hb[i][j] and (i,j)-(i+1,j) of size vb[i][j].
    phys[i][j] (optional): size of a dangling label k{i},{j} (ket of a layered network).
    Returns (list of quimb Tensors, edges)."""
    import quimb.tensor as qtn

    geo = Geo("2d", (Lx, Ly))
    ts, edges = [], []
    for i, j in itertools.product(range(Lx), range(Ly)):
        inds, shape = [], []
        if j > 0 or cyc[1]:
            jj = (j - 1) % Ly
            inds.append("h%d,%d" % (i, jj)); shape.append(hb[i][jj])
        if j < Ly - 1 or cyc[1]:
            inds.append("h%d,%d" % (i, j)); shape.append(hb[i][j])
            edges.append([geo.sid(i, j), geo.sid(i, (j + 1) % Ly), int(hb[i][j])])
        if i < Lx - 1 or cyc[0]:
            inds.append("v%d,%d" % (i, j)); shape.append(vb[i][j])
            edges.append([geo.sid(i, j), geo.sid((i + 1) % Lx, j), int(vb[i][j])])
        if i > 0 or cyc[0]:
            ii = (i - 1) % Lx
            inds.append("v%d,%d" % (ii, j)); shape.append(vb[ii][j])
        if phys is not None:
            inds.append("k%d,%d" % (i, j)); shape.append(phys[i][j])
        a = rint(g, shape, cplx, vals)
        if dtype is not None:
            a = a.astype(dtype)
        ts.append(qtn.Tensor(a, inds=inds, tags=["I%d,%d" % (i, j), "X%d" % i, "Y%d" % j]))
    return ts, edges


def as_tn2d(ts, Lx, Ly):
    import quimb.tensor as qtn

    tn = qtn.TensorNetwork2D.new(Lx=Lx, Ly=Ly, site_tag_id="I{},{}", x_tag_id="X{}", y_tag_id="Y{}")
    for t in ts:
        tn |= t
    return tn


def layer_norm(ts):
    """bra/ket norm network of a ket given as tensors with dangling labels k*: returns tensors"""
    out = []
    for t in ts:
        k = t.copy()
        k.add_tag("KET")
        b = t.conj()
        b.reindex_({i: i + "*" for i in t.inds if not i.startswith("k")})
        b.add_tag("BRA")
        out += [k, b]
    return out


def build_lattice3d(g, dims, bsz, cplx=False, vals=VALSETS[0]):
    """bsz(axis, coo) -> size of the bond leaving site coo in +axis direction"""
    import quimb.tensor as qtn

    Lx, Ly, Lz = dims
    geo = Geo("3d", dims)
    ts, edges = [], []
    for coo in itertools.product(range(Lx), range(Ly), range(Lz)):
        inds, shape = [], []
        for ax in range(3):
            if coo[ax] < dims[ax] - 1:
                inds.append("b%d_%d,%d,%d" % ((ax,) + coo)); shape.append(bsz(ax, coo))
                nb = list(coo); nb[ax] += 1
                edges.append([geo.sid(*coo), geo.sid(*nb), int(bsz(ax, coo))])
            if coo[ax] > 0:
                pc = list(coo); pc[ax] -= 1
                inds.append("b%d_%d,%d,%d" % ((ax,) + tuple(pc))); shape.append(bsz(ax, tuple(pc)))
        ts.append(qtn.Tensor(rint(g, shape, cplx, vals), inds=inds,
                             tags=["I%d,%d,%d" % coo, "X%d" % coo[0], "Y%d" % coo[1], "Z%d" % coo[2]]))
    tn = qtn.TensorNetwork3D.new(Lx=Lx, Ly=Ly, Lz=Lz, site_tag_id="I{},{},{}", x_tag_id="X{}", y_tag_id="Y{}", z_tag_id="Z{}")
    for t in ts:
        tn |= t
    return tn, edges


def build_graph(g, n, gedges, sizes, cplx=False, vals=VALSETS[0]):
    import quimb.tensor as qtn

    ts, edges = [], []
    for k in range(n):
        inds, shape = [], []
        for (a, b), s in zip(gedges, sizes):
            if k in (a, b):
                inds.append("e%d_%d" % (a, b)); shape.append(s)
        ts.append(qtn.Tensor(rint(g, shape, cplx, vals), inds=inds, tags=["I%d" % k]))
    for (a, b), s in zip(gedges, sizes):
        edges.append([a + 1, b + 1, int(s)])
    return qtn.TensorNetwork(ts), edges


def abs_bound(tensors):
    """an upper bound on the modulus of every partial sum TLC forms when it evaluates the network"""
    v = contract_plain([(i, np.abs(np.real(a)) + np.abs(np.imag(a))) for i, a in tensors])
    if isinstance(v, tuple):
        return float(np.sum(np.abs(v[1])))
    return float(abs(v))


def random_connected_graph(r, n, m):
    allp = [(a, b) for a in range(n) for b in range(a + 1, n)]
    while True:
        es = sorted(r.sample(allp, m))
        comp, ch = {0}, True
        while ch:
            ch = False
            for a, b in es:
                if (a in comp) != (b in comp):
                    comp |= {a, b}
                    ch = True
        if len(comp) == n:
            return es
