"""C05 - tensor decomposition: exact when untruncated, optimal and honest when truncated.

TLC side : spec/C05/C05_Defs.tla (Keep / Err2 / renormalisation law / documented dispatch table),
           spec/C05/C05_Split.tla (step-by-step transcription of the generic and the accelerated
           truncation + of the option parsing and isometry claim; invariants: both equal the
           reference for every small case), MC_C05 configs, two self-test configs that must fail.
Code side: inputs with known integer spectra (signed permutations / Hadamard / Haar mixing, tall,
           wide, dimension 1, rank deficient, 4 dtypes) are split through array_split (accelerated
           path, generic path via backend dispatch, batched input) and Tensor.split / tensor_split
           (random relabelling, bipartition, get=); every observation is snapped to integers and
           judged by spec/C05/C05_Trace.tla.
"""

import numpy as np

from ..ctx import MachineryError
from ..snap import qdiff
from . import c05_util as U

DYNAMIC = ("auto", "svd", "svd:eig", "eigh")  # cutoff + max_bond + renorm
ITER = ("svds", "isvd", "rsvd", "eigsh")
HERM = ("eigh", "eigsh", "cholesky")
NOTRUNC = ("qr", "lq", "qr:cholesky", "lq:cholesky", "cholesky", "lu", "polar_right", "polar_left")
WINFO = ("svd", "svd:eig")

_CANON = {"none": "none", "U,s,VH": "none", "both": "both", "Usq,sqVH": "both", "left": "left", "Us,VH": "left",
          "right": "right", "U,sVH": "right", "lorthog": "lorthog", "U": "lorthog", "rorthog": "rorthog",
          "VH": "rorthog", "lfactor": "lfactor", "Us": "lfactor", "rfactor": "rfactor", "sVH": "rfactor"}


def _resolved(method, absorb):
    c = _CANON.get(absorb, absorb)
    if c != "auto":
        return c
    if method in ("qr", "qr:cholesky", "polar_right"):
        return "right"
    if method in ("lq", "lq:cholesky", "polar_left"):
        return "left"
    return "both"


def _tags(case):
    """input-derived descriptors (never verdicts) that let known findings be matched narrowly"""
    s, m, n = case["s"], case["m"], case["n"]
    rank = sum(1 for x in s if x > 0)
    c = _resolved(case["method"], case["absorb"])
    orient = "ok"
    if case["method"] in ("qr:cholesky", "lq:cholesky"):
        if (c in ("right", "lorthog", "rfactor") and m < n) or (c in ("left", "lfactor", "rorthog") and m > n):
            orient = "ill"
    return {
        "shape": "tall" if m > n else ("wide" if m < n else "square"),
        "rankdef": rank < len(s),
        "zsurv": bool(rank < len(s) and case["cn"] == 0 and (case["maxb"] == 0 or case["maxb"] > rank)),
        "rn": U.renorm_class(case["renorm"], case["mode"]),
        "orient": orient,
        "single": case["dtype"] in U.SINGLE,
        # the iterative drivers switch to their dense fall-back above half of the dimension
        "iterk": bool(case["method"] in ITER and 0 < case["maxb"] <= len(s) // 2),
    }


def safe_dtype(method, dt, s, mode, renorm):
    """A Gram-matrix based SVD in single precision returns exact zeros as ~1e-3 * s_max; quantities that are
    *linear* in the values (sum1 / rsum1 decisions, trace-norm renormalisation) then carry that noise once
    per zero value.  Those combinations are exercised in double precision instead (a limit, see report)."""
    if method == "svd:eig" and dt in U.SINGLE and 0 in s and (mode in ("sum1", "rsum1") or U.renorm_power(renorm, mode) == 1):
        return {"float32": "float64", "complex64": "complex128"}[dt]
    return dt


def make_input(case, rng, kind):
    if case["inp"] == "herm":
        e = [x * sg for x, sg in zip(case["s"], case["signs"])]
        return U.hermitian_with_spectrum(e, case["dtype"], rng, kind)
    return U.matrix_with_spectrum(case["s"], case["m"], case["n"], case["dtype"], rng, kind)


_CASE_KEYS = ("method", "absorb", "dtype", "m", "n", "inp", "s", "neg", "mode", "cn", "cd", "maxb", "renorm")


def _record(case, path, tid, exc, obs, extra=None):
    r = {"ev": "split", "tid": tid, "path": path, "exc": exc, "hist": ""}
    for k in _CASE_KEYS:
        r[k] = case[k]
    r["winfo"] = case["winfo"]
    r.update(_tags(case))
    r.update(obs)
    if extra:
        r.update(extra)
    return r


def _summary(rec, rp):
    """what two implementations must agree on: lattice valued observations only (after a
    renormalisation the values are not integers: they are compared directly through `rel`,
    and through the one sum the law makes an integer)"""
    keys = ["hasL", "hasS", "hasR", "k", "e2"]
    if rp == 0:
        keys += ["sum1", "sum2", "svL2", "svS2", "svR2"]
    else:
        keys += ["sum1" if rp == 1 else "sum2"]
    return {k: rec[k] for k in keys} | {"ret": rec["exc"] == ""}


def observe(case, rng, kind, paths, tid, variant=0, hist="", clear=True):
    """Run one case on one input through the requested paths. -> (split records, agree records)"""
    A = make_input(case, rng, kind)
    winfo = case["winfo"]
    rp = U.renorm_power(case["renorm"], case["mode"])
    rescaled = rp > 0
    recs, seffs = [], {}
    for path in paths:
        if clear:
            U.clear_option_caches()
        if path in ("numba", "generic"):
            exc, outs = U.call_array(A, case, path, winfo)
            mats = [A]
        elif path == "batch":
            A2 = make_input(case, rng, kind)
            exc, outs = U.call_array([A, A2], case, path, winfo)
            mats = [A, A2]
        else:
            get = {"tensor:None": None, "tensor:tensors": "tensors", "tensor:arrays": "arrays"}[path]
            # hermitian methods need the matricisation itself hermitian: both label orders are given
            v = 2 if case["inp"] == "herm" else variant
            exc, L, S, R, err, cl, cr, lab, At = U.call_tensor(A, case, get, winfo, rng, v)
            outs = [] if exc else [(L, S, R, err)]
            mats = [At]
        if exc:
            recs.append(_record(case, path, tid, exc, dict(U.EMPTY_OBS, claimL=False, claimR=False), {"hist": hist}))
            continue
        for b, (L, S, R, err) in enumerate(outs):
            try:
                o = U.measure(mats[b], L, S, R, case["dtype"], rescaled)
            except Exception:  # noqa - an output that cannot even be measured is reported as ill-shaped (lab = False)
                o = dict(U.EMPTY_OBS, hasL=L is not None, hasS=S is not None, hasR=R is not None, k=U.NA)
            o["e2"] = U.err2_of(err, case["dtype"])
            o["claimL"], o["claimR"] = False, False
            if path.startswith("tensor"):
                o["claimL"], o["claimR"] = cl, cr
                o["lab"] = bool(o["lab"] and lab)
            recs.append(_record(case, path, tid, "", o, {"hist": hist}))
            if b == 0:
                seffs[path] = _seff(L, S, R)
    agrees = []
    first = {}
    for r in recs:
        first.setdefault(r["path"], r)
    if "numba" in first:
        for other in ("generic", "batch"):
            if other in first:
                a, b = first["numba"], first[other]
                rel = 0
                sa, sb = seffs.get("numba"), seffs.get(other)
                if sa is not None and sb is not None:
                    rel = qdiff(sa, sb, U.tol_of(case["dtype"]))
                ag = {"ev": "agree", "tid": tid, "pa": "numba", "pb": other, "oa": _summary(a, rp), "ob": _summary(b, rp), "rel": int(rel),
                      "exa": a["exc"], "exb": b["exc"]}
                for k in _CASE_KEYS:
                    ag[k] = case[k]
                ag.update(_tags(case))
                agrees.append(ag)
    return recs, agrees


def _seff(L, S, R):
    try:
        if S is not None:
            return np.abs(np.asarray(S).astype(complex))
        if L is not None and R is not None:
            P = np.asarray(L).astype(complex) @ np.asarray(R).astype(complex)
            if np.all(np.isfinite(P)):
                return np.linalg.svd(P, compute_uv=False)[: np.asarray(L).shape[1]]
    except Exception:  # noqa
        pass
    return None


# --------------------------------------------------------------------------- case builders
def _case(method, absorb, dtype, inp, s, m, n, mode="rel", cn=0, cd=1, maxb=0, renorm=0, signs=None):
    signs = signs or [1] * len(s)
    return {"method": method, "absorb": absorb, "dtype": dtype, "inp": inp, "s": list(s), "m": m, "n": n, "mode": mode,
            "cn": cn, "cd": cd, "maxb": maxb, "renorm": renorm, "signs": list(signs), "neg": any(x < 0 for x in signs),
            # an info dict is optional; without one svd:eig takes its per-form shortcuts
            "winfo": method in WINFO}


GEN_SHAPES = [  # (spectrum, m, n)
    ([3, 2, 1], 4, 3), ([3, 2, 1], 3, 4), ([4, 2, 2], 3, 3), ([3, 2, 0], 5, 3), ([3, 1, 0], 3, 4), ([2, 2, 0], 3, 3),
    ([2], 3, 1), ([3], 1, 4), ([2], 1, 1), ([4, 3, 2, 1], 4, 6), ([4, 4, 1, 1], 6, 4),
]
FULLRANK_SHAPES = [s for s in GEN_SHAPES if 0 not in s[0]]
HERM_SPECS = [  # (|eigenvalues| descending, signs)
    ([3, 2, 1], [1, 1, 1]), ([3, 2, 1], [1, -1, 1]), ([3, 2, 0], [1, 1, 1]), ([2], [1]), ([4, 2, 2, 1], [1, 1, 1, 1]),
    ([4, 3, 1, 1], [-1, 1, 1, -1]),
]
PD_SPECS = [h for h in HERM_SPECS if 0 not in h[0] and -1 not in h[1]]
ITER_SHAPES = [([4, 2, 0, 0, 0, 0], 6, 7), ([3, 3, 1, 0, 0, 0], 7, 6), ([4, 2, 0, 0, 0, 0], 6, 6)]
ITER_HERM = [([4, 2, 0, 0, 0, 0], [1, -1, 1, 1, 1, 1]), ([3, 3, 1, 0, 0, 0], [1, 1, 1, 1, 1, 1])]

TRUNC_OPTS = [("rsum2", 5, 67, 0), ("rel", 39, 67, 0), ("abs", 3, 2, 0), ("sum2", 9, 2, 0), ("rsum1", 30, 67, 0), ("sum1", 7, 2, 0),
              ("rel", 0, 1, 2), ("rsum2", 5, 67, 1), ("abs", 1, 2, 2), ("sum1", 1, 2, 9), ("rsum2", 0, 1, 1)]


def _pick_trunc(s, i):
    for j in range(len(TRUNC_OPTS)):
        mode, cn, cd, maxb = TRUNC_OPTS[(i + j) % len(TRUNC_OPTS)]
        if U.off_boundary(s, mode, cn, cd):
            return mode, cn, cd, maxb
    return "rel", 0, 1, 1


def table_cases(tc, idx, quick, rng):
    """concrete calls for one (method, absorb, truncating?) combination printed by the TLC model"""
    method, absorb, trunc = tc["method"], tc["absorb"], tc["trunc"]
    dts = U.DTYPES
    out = []
    if method in ITER:
        specs = ITER_HERM if method == "eigsh" else ITER_SHAPES
        for j, sp in enumerate(specs if not quick else specs[:1]):
            s = sp[0]
            rank = sum(1 for x in s if x)
            # scipy's interpolative routines reject single precision with a clear error: double only
            for dt in ([dts[(idx + j) % 2]] if quick else (dts[:2] if method == "isvd" else dts)):
                if method == "eigsh":
                    c = _case(method, absorb, dt, "herm", s, len(s), len(s), signs=sp[1])
                else:
                    c = _case(method, absorb, dt, "gen", s, sp[1], sp[2])
                c["mode"] = "rsum2"
                # exact-rank regime (iterative branch) / a cap equal to the full dimension (dense fall-back)
                c["maxb"] = rank if trunc else len(s)
                out.append(c)
                if trunc and rank > 1 and (idx + j) % 3 == 0:
                    out.append(dict(c, maxb=rank - 1))  # below the rank: judged on the cap and the form only
        return out
    if method in HERM:
        specs = PD_SPECS if method == "cholesky" else HERM_SPECS
        shapes = [(s, len(s), len(s), sg) for s, sg in specs]
        inp = "herm"
    else:
        specs = FULLRANK_SHAPES if method in ("qr:cholesky", "lq:cholesky") else GEN_SHAPES
        shapes = [(s, m, n, None) for s, m, n in specs]
        inp = "gen"
    if quick:
        sel = [shapes[idx % len(shapes)], shapes[(idx * 7 + 3) % len(shapes)]]
    else:
        sel = shapes
    for j, (s, m, n, sg) in enumerate(sel):
        for dt in ([dts[(idx + j) % 4]] if quick else dts):
            c = _case(method, absorb, dt, inp, s, m, n, signs=sg)
            if method == "lu":
                c["mode"] = "rel"
            if trunc:
                if method in DYNAMIC:
                    c["mode"], c["cn"], c["cd"], c["maxb"] = _pick_trunc(s, idx + j)
                elif method == "svd:rand":
                    c["maxb"] = 1 + (idx + j) % 2
                else:
                    # no truncation options exist for these drivers: a cutoff is documented to be ignored
                    c["cn"], c["cd"] = 1, 1000
                    if method != "lu":
                        c["mode"] = "rsum2"
            if method in WINFO:
                if quick:
                    c["winfo"] = (idx + j) % 2 == 0
                else:
                    out.append(dict(c, winfo=False))
            out.append(c)
    return out


TENSOR_PATHS = ("tensor:tensors", "tensor:arrays", "tensor:None")
SINGLE_FORMS = ("lorthog", "rorthog", "lfactor", "rfactor", "s", "lsqrt", "rsqrt")


def paths_for(case, idx, quick):
    method, c = case["method"], _resolved(case["method"], case["absorb"])
    paths = ["numba"]
    if method not in ITER:
        paths.append("generic")
        # the batched LU / polar drivers do not exist (they raise): out of scope
        if (not quick or idx % 3 == 0) and method not in ("lu", "polar_right", "polar_left"):
            paths.append("batch")
    # tensor_split documents every form but 's'/'lsqrt'/'rsqrt'; a network (get=None) needs both factors
    if c not in ("s", "lsqrt", "rsqrt"):
        tp = [p for p in TENSOR_PATHS if not (p == "tensor:None" and c in SINGLE_FORMS)]
        paths += [tp[idx % len(tp)]] if quick else tp
    return paths


# --------------------------------------------------------------------------- the run
def run(ctx):
    quick = ctx.tier == "quick"
    rng = np.random.default_rng(5000 + ctx.seed)
    np.random.seed(5000 + ctx.seed)  # scipy's iterative solvers draw their start vectors from the global state
    import qv.tlc as T

    # ---- 1. TLC: both truncation implementations and the dispatch against the reference
    acts = ("GenCount", "GenCap", "GenRenorm", "NbCountDirect", "NbScanInit", "NbScanStep",
            "NbScanEnd", "NbCap", "NbStatic", "NbRenorm", "ParseAuto", "ParseLq", "ResolveAbsorb", "InjectOpts",
            "Driver", "ClaimIsometry")
    res = ctx.model_check("MC_C05", "MC_quick.cfg" if quick else "MC_thorough.cfg", name="truncation+dispatch", require_actions=acts, workers=8)
    n_init = res.coverage.get("Init", (0, 0))[1]
    # self-tests of the model: without the named exemptions TLC must find the recorded deviations
    # (MC_selftest_renorm: the generic renormalisation as it was before /repo commit b7293c30, PreFix = TRUE)
    for cfg, inv in (("MC_selftest_renorm.cfg", "RenormLawGeneric"), ("MC_selftest_table.cfg", "TableSoundStrict")):
        r = T.run_tlc("MC_C05", cfg, ctx.spec_dir, workers=4, allow_violation=True, scratch=ctx.scratch)
        if r.violated != inv:
            raise MachineryError("model self-test %s: %s was not violated" % (cfg, inv))
        ctx.extra.setdefault("model_selftests", []).append("%s violates %s (%d states)" % (cfg, inv, r.distinct))
    # the dispatch table cases, printed by the model, are what gets replayed (S->C)
    rt = T.run_tlc("MC_C05", "MC_table.cfg", ctx.spec_dir, workers=1, scratch=ctx.scratch)
    table = T.parse_printed_json(rt.output)
    table = sorted(table, key=lambda d: (d["method"], d["absorb"], d["trunc"]))
    if len(table) < 600:
        raise MachineryError("the model printed only %d dispatch cases" % len(table))
    ctx.extra["table_cases_from_tlc"] = len(table)

    recs, agrees = [], []
    tid = 0

    # ---- 2. S->C: every (method, absorb, truncating?) of the table on concrete inputs
    for idx, tc in enumerate(table):
        for j, case in enumerate(table_cases(tc, idx + ctx.seed, quick, rng)):
            tid += 1
            kind = ("perm", "had", "had", "haar")[(idx + j) % 4]
            r, a = observe(case, rng, kind, paths_for(case, idx + j, quick), tid, variant=idx + j)
            recs += r
            agrees += a
    ntable = len(recs)

    # ---- 3. S->C: the truncation grid of the model on svd / svd:eig / eigh, all implementations
    if quick:
        grid = U.trunc_grid(3, 3, U.CUTGRID_QUICK, (0, 1, 2, 9), (0, 1, 2, 3))
    else:
        grid = U.trunc_grid(4, 4, U.CUTGRID_THOROUGH, (0, 1, 2, 3, 9), (0, 1, 2, 3))
    # the driver's grid is the model's grid: same number of cases as TLC's initial states
    if len(grid) + len(table) != n_init:
        raise MachineryError("case grid of the driver (%d + %d) differs from the model's initial states (%d)" % (len(grid), len(table), n_init))
    ctx.extra["trunc_cases_in_model"] = len(grid)
    if quick:
        pick = rng.choice(len(grid), size=min(len(grid), 900), replace=False)
        grid = [grid[i] for i in sorted(pick)]
    else:
        pick = rng.choice(len(grid), size=min(len(grid), 24000), replace=False)
        grid = [grid[i] for i in sorted(pick)]
    forms = ("none", "both", "left", "right", "none", "U,sVH", "Us,VH", "auto", "lfactor", "s", "rfactor")
    for i, g in enumerate(grid):
        tid += 1
        d = len(g["s"])
        method = ("svd", "svd:eig", "svd", "eigh", "auto")[i % 5]
        dt = U.DTYPES[(i // 5) % 4]
        ab = forms[(i // 3) % len(forms)]
        if method == "eigh":
            signs = [int(x) for x in rng.choice([1, -1], size=d)]
            if ab in ("both", "auto"):
                ab = "none"
            case = _case(method, ab, dt, "herm", g["s"], d, d, signs=signs)
        else:
            m, n = ((d, d), (d + 2, d), (d, d + 1))[(i // 7) % 3]
            case = _case(method, ab, dt, "gen", g["s"], m, n)
        for k in ("mode", "cn", "cd", "maxb", "renorm"):
            case[k] = g[k]
        case["dtype"] = safe_dtype(method, dt, g["s"], g["mode"], g["renorm"])
        case["winfo"] = case["winfo"] and i % 3 != 1
        paths = ["numba", "generic"]
        if i % 4 == 0:
            paths.append("batch")
        if ab != "s" and i % 2 == 0:
            paths.append(("tensor:tensors", "tensor:arrays", "tensor:None")[(i // 2) % 3] if ab not in SINGLE_FORMS else "tensor:tensors")
        r, a = observe(case, rng, ("perm", "had", "haar")[i % 3], paths, tid, variant=i)
        recs += r
        agrees += a
    ngrid = len(recs) - ntable

    # ---- 4. C->S: a larger scope (longer spectra over 0..9, prime-denominator cutoffs, Haar mixing,
    #          multi-index tensors with random bipartitions)
    nbig = 250 if quick else 6000
    primes = (101, 211, 499, 997)
    made = 0
    while made < nbig:
        d = int(rng.integers(1, 9))
        s = sorted((int(x) for x in rng.integers(0, 10, size=d)), reverse=True)
        if s[0] == 0:
            continue
        mode = U.MODES[int(rng.integers(6))]
        if mode in ("abs", "sum2", "sum1"):
            top = {"abs": 9, "sum2": sum(x * x for x in s), "sum1": sum(s)}[mode]
            cn, cd = 2 * int(rng.integers(0, top + 1)) + 1, 2
        else:
            cd = int(primes[int(rng.integers(len(primes)))])
            cn = int(rng.integers(1, cd))
        if rng.integers(5) == 0:
            cn, cd = 0, 1
        if not U.off_boundary(s, mode, cn, cd) or U.margin(s, mode, cn, cd) < 0.05:
            continue
        maxb = int(rng.choice([0, 0, 1, 2, 3, 5, 12]))
        renorm = int(rng.choice([0, 0, 1, 2, 3]))
        if cn == 0 and U.renorm_power(renorm, mode) > 0 and 0 in s:
            continue
        method = ("svd", "svd:eig", "eigh", "svd", "auto")[made % 5]
        ab = ("none", "both", "left", "right", "Usq,sqVH", "lorthog", "rfactor")[int(rng.integers(7))]
        dt = U.DTYPES[int(rng.integers(4))]
        if method == "eigh":
            if ab in ("both", "Usq,sqVH"):
                ab = "none"
            case = _case(method, ab, dt, "herm", s, d, d, signs=[int(x) for x in rng.choice([1, -1], size=d)])
        else:
            m, n = ((d, d), (d + int(rng.integers(1, 4)), d), (d, d + int(rng.integers(1, 4))))[int(rng.integers(3))]
            case = _case(method, ab, dt, "gen", s, m, n)
        case.update(mode=mode, cn=cn, cd=cd, maxb=maxb, renorm=renorm, dtype=safe_dtype(method, dt, s, mode, renorm))
        case["winfo"] = case["winfo"] and bool(rng.integers(2))
        tid += 1
        made += 1
        tp = "tensor:tensors" if ab in SINGLE_FORMS else TENSOR_PATHS[int(rng.integers(3))]
        r, a = observe(case, rng, "haar", ["numba", "generic", tp], tid, variant=int(rng.integers(4)))
        recs += r
        agrees += a

    # ---- 5. history: the memoised option parsing must not make a result depend on earlier calls
    hist = []
    for mode, cn, cd in (("rsum2", 5, 67), ("sum2", 9, 2), ("rsum1", 30, 67)):
        for first, second in ((1, 3), (3, 1), (2, 3), (3, 2)):
            tid += 1
            s = [4, 3, 2, 1]
            c1 = _case("svd", "none", "float64", "gen", s, 5, 4, mode=mode, cn=cn, cd=cd, renorm=first)
            c2 = dict(c1, renorm=second)
            U.clear_option_caches()
            observe(c1, rng, "had", ["numba"], tid, clear=False)
            r, _ = observe(c2, rng, "had", ["numba"], tid, clear=False, hist="after renorm=%s" % {1: "1", 2: "2", 3: "True"}[first])
            hist += r
    U.clear_option_caches()
    recs += hist

    # ---- 6. get='values' / array_svals
    sv = []
    import quimb.tensor as qtn
    from quimb.tensor import decomp as D
    for i, (s, m, n) in enumerate(GEN_SHAPES):
        for method in ("svd", "svd:eig"):
            for dt in (U.DTYPES if not quick else U.DTYPES[i % 2::2]):
                A = U.matrix_with_spectrum(s, m, n, dt, rng, "had")
                for route in ("array_svals", "split", "singular_values"):
                    tid += 1
                    exc, vals = "", []
                    try:
                        if route == "array_svals":
                            v = D.array_svals(A, method=method)
                        elif route == "split":
                            v = qtn.Tensor(A, inds=("a", "b")).split(["a"], get="values", method=method)
                        else:
                            v = qtn.Tensor(A, inds=("a", "b")).singular_values(["a"], method=method)
                        vals = U._snap_list(np.sort(np.abs(np.asarray(v)) ** 2)[::-1], dt)
                    except Exception as ex:  # noqa
                        exc = type(ex).__name__
                    sv.append({"ev": "svals", "tid": tid, "method": method, "route": route, "dtype": dt, "s": s, "m": m, "n": n,
                               "exc": exc, "sv2": vals, "single": dt in U.SINGLE})
    recs += sv

    # ---- judge
    ctx.sample({"split": recs[len(recs) // 5]})
    ctx.sample({"split": recs[ntable + ngrid // 2]})
    if agrees:
        ctx.sample({"agree": agrees[len(agrees) // 2]})
    ctx.sample({"svals": sv[0]})
    fails = ctx.validate("C05_Trace", "Trace.cfg", recs, name="split", ntraces=tid)
    fails += ctx.validate("C05_Trace", "Trace.cfg", agrees, name="agree", ntraces=0)
    # self-test of the trace spec: a corrupted copy of an accepted observation must be rejected
    badlines = {id(f["record"]) for f in fails}
    good = next((r for r in recs if r["ev"] == "split" and id(r) not in badlines and r["exc"] == "" and r["method"] == "svd"
                 and r["path"] == "numba" and r["e2"] >= 0 and r["hasL"] and r["hasR"] and r["cn"] > 0), None)
    if good is None:
        raise MachineryError("no accepted svd observation to corrupt")
    corrupt = [dict(good, k=good["k"] + 1), dict(good, e2=good["e2"] + 1), dict(good, isoL=False, claimL=True), dict(good, dq=3, d2=good["d2"] + 2)]
    cf = T.validate_trace("C05_Trace", "Trace.cfg", ctx.spec_dir, ctx.write_trace(corrupt, "corrupt"), scratch=ctx.scratch)[0]["fails"]
    got = {(f["line"], f["clause"]) for f in cf}
    want = {(1, "KeptIsMinimal"), (2, "ErrorHonest"), (3, "ClaimedIsometryTrue"), (4, "BestApprox")}
    if not want <= got:
        raise MachineryError("trace spec self-test: corrupted observations were not rejected: %s" % sorted(want - got))
    ctx.extra["trace_selftest"] = "4 corrupted copies of an accepted record rejected: %s" % sorted(c for _, c in want)
    harness = [f for f in fails if f["clause"].startswith("HARNESS:")]
    if harness:
        raise MachineryError("the driver produced an ill-formed case: %s" % {k: harness[0]["record"].get(k) for k in ("ev", "method", "s", "mode", "cn", "cd", "m", "n")})
    ctx.extra.update({"records_table_replay": ntable, "records_trunc_grid": ngrid, "records_agree": len(agrees),
                      "records_history": len(hist), "records_svals": len(sv),
                      "paths": sorted({r["path"] for r in recs if r["ev"] == "split"}),
                      "snap_tolerance_atol_rtol": {"double": [1e-5, 1e-7], "single": [1e-2, 1e-4]},
                      "relation_tolerance": {"double": 1e-6, "single": 2e-3}})
    ctx.clauses.update(["Returns", "FormAsRequested", "OneNewBond", "KeptIsMinimal", "NeverZeroNeverAboveCap", "ExactWhenUntruncated",
                        "BestApprox", "ErrorHonest", "ValuesWhereRequested", "RenormLaw", "DocIsometryTrue", "ClaimedIsometryTrue",
                        "PathsAgree", "ValuesAreTheSpectrum"])
    ctx.clauses.update(["model: KeptIsMinimal NeverZeroNeverAboveCap ErrorHonest RenormLawAccel RenormLawGeneric PathsAgree "
                        "AcceptedReturns TableSound RejectsUndocumented"])
    ctx.assumptions += [
        "spectra are integers known by construction; cutoffs are rationals off every decision boundary (strict vs non-strict comparison is not examined)",
        "'best approximation of that rank' is decided through Eckart-Young on integer spectra: distance^2 == discarded weight and rank <= kept",
        "iterative / randomised drivers (svds, isvd, rsvd, eigsh) only in the exact-rank regime and for the bond cap; svd:rand on small matrices where its sketch is complete",
        "the generic implementation is reached through autoray's backend dispatch (like=<unregistered backend>) and through batched (ndim 3) input",
        "drivers without truncation options (qr, lq, cholesky, polar, lu) are not judged on max_bond (silently ignored by the API)",
        "eigh/eigsh/cholesky get hermitian (positive definite for cholesky) inputs; qr:cholesky full-rank inputs",
    ]
    ctx.judge(fails)
