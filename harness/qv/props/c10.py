"""C10 - DMRG is variational and reports the energy of the state it returns.

TLC side : spec/C10/C10_DMRG.tla - protocol model of DMRG.solve / DMRG.sweep / MovingEnvironment
           (versions of site tensors vs. the versions every environment block was contracted from,
           canonical form, bond sizes, energy stamps); invariants NoStaleEnv, CanonAtUpdate, SweepOrder,
           PosInRange, ReportedIsCurrent, BondCap, EndNormalized for every script of <= 3 sweeps on L <= 5
           (thorough: L <= 6, any rank); six seeded protocol defects and the two known findings are
           configurations that must FAIL.
S->C     : every complete script TLC enumerates for the smallest constants (L, bsz, solve/manual, per sweep
           direction/canonize/cap, and in solve mode the cut into consecutive solve() calls, each stopping by
           a huge tolerance or by max_sweeps) is replayed on the real DMRG class.
C->S     : seeded runs over Hamiltonian families (exact domain: classical energy functions conjugated by
           site-local unitaries, real-symmetric and genuinely complex, d = 2, 3, TLC computes E0 and the
           ground configurations; generic: random Hermitian MPOs, XYZ + fields + DM term, library
           builders), DMRG1/DMRG2, sweep sequences, bond/cut-off schedules, initial states.
           A recorder wraps DMRG.sweep and DMRG._update_local_state from outside and logs every local
           update; spec/C10/C10_Trace.tla (stateful) judges every record.
"""

import concurrent.futures as cf
import warnings

import numpy as np

from .. import tlc as T
from ..ctx import MachineryError
from ..snap import qdiff
from . import c10_util as U
from .c10_util import q7, qabs

ACTIONS = ("StartSweep", "Move", "LocalUpdate1", "LocalUpdate2", "EndSweep", "Finish")
SELFTESTS = (
    ("MC_mut_reuse_env.cfg", "NoStaleEnv", "MovingEnvironment kept across sweeps (stale cache)"),
    ("MC_mut_env_before_canon.cfg", "NoStaleEnv", "environment built before the canonization"),
    ("MC_mut_canon_before_toten.cfg", "NoStaleEnv", "one-site: canonize before tot_en is contracted"),
    ("MC_mut_no_canon.cfg", "CanonAtUpdate", "sweep without the canonization solve() asks for"),
    ("MC_mut_energy_before_update.cfg", "ReportedIsCurrent", "energy taken before the last update"),
    ("MC_mut_skip_last.cfg", "SweepOrder", "sweep range one block short"),
    ("MC_mut_stale_prev.cfg", "CanonAtUpdate", "previous direction kept across solve() calls but not updated on convergence"),
    ("MC_kf1.cfg", "WiringMatchesApply", "KF-C10-1: ket attached to the operator's upper leg"),
    ("MC_mut_no_renorm.cfg", "EndNormalizedAnyCap", "two-site split without renormalisation: last split truncates when cap < d"),
    ("MC_kf3.cfg", "CanonAtUpdateAlways", "KF-C10-3: one-site alternate sweep not canonized after the bond expansion"),
    ("MC_mut_unbound_i.cfg", "PosInRange", "L = bsz, left sweep: init_segment(begin='right') uses its unbound loop variable"),
)


# ----------------------------------------------------------------------------- Hamiltonians
def make_ham(rng, spec):
    """spec: dict(fam, L, d, kind, cplx, ...) -> dict(ham, Hd, f, g, us, name, cplx, dmpo)"""
    import quimb.tensor as qtn

    L, d = spec["L"], spec["d"]
    fam = spec["fam"]
    out = {"f": [], "g": [], "us": [], "dmpo": 0}
    if fam == "classical":
        f, g = U.random_classical(rng, L, d, spec["kind"])
        if spec.get("shift"):                       # positive spectrum
            f = [[x + 2 for x in row] for row in f]
        pool = U.UNITARIES[d] if spec["cplx"] else U.REAL_UNITARIES[d]
        us = [str(pool[int(rng.integers(len(pool)))]) for _ in range(L)]
        if spec["cplx"] and not any(u in ("SH", "TH", "F", "ZF") for u in us):
            us[int(rng.integers(L))] = "SH" if d == 2 else "F"
        Hd, _ = U.classical_dense(f, g, us, d)
        ham = U.classical_mpo(f, g, us, d)
        out.update(f=f, g=g, us=us, name="classical-%s" % spec["kind"])
        out["dmpo"] = qdiff(np.asarray(ham.to_dense()), Hd, 1e-9)      # MPO denotes the operator (upper = row)
    else:
        kind = spec["kind"]
        if kind == "randmpo":
            ham = U.random_herm_mpo(rng, L, d, int(rng.integers(2, 5)), spec["cplx"])
            ham *= float(L / max(1e-9, np.abs(np.linalg.eigvalsh(np.asarray(ham.to_dense()))).max()))   # |E| <= L
        elif kind == "spin":
            ham = U.spin_ham(rng, L, (d - 1) / 2, spec["cplx"], shift=2.0 if spec.get("shift") else 0.0)
        elif kind == "lib_rand":
            ham = qtn.MPO_rand_herm(L, 3, phys_dim=d, dtype=complex if spec["cplx"] else float,
                                    seed=int(rng.integers(1 << 30)))
            ham *= float(d ** (L / 2))
        elif kind == "heis":
            ham = qtn.MPO_ham_heis(L, j=(1.0, float(rng.uniform(0.3, 1.5)), float(rng.uniform(-1, 1))),
                                   bz=float(rng.uniform(-1, 1)), S=(d - 1) / 2)
        elif kind == "ising":
            ham = qtn.MPO_ham_ising(L, j=float(rng.choice([-1.0, 1.0, 0.5])), bx=float(rng.uniform(0.2, 2.0)), S=(d - 1) / 2)
        else:
            raise ValueError(kind)
        Hd = np.asarray(ham.to_dense())
        out["name"] = "generic-%s" % kind
    out["ham"] = ham
    out["Hd"] = Hd
    out["cplx"] = bool(np.abs(Hd - Hd.T).max() > 1e-9)       # genuinely complex Hermitian <=> H != H^T
    return out


def make_p0(rng, kind, L, d, chi, cplx):
    import quimb.tensor as qtn

    if kind == "none":
        return None
    if kind == "product":
        arrays = []
        for i in range(L):
            v = np.zeros(d, dtype=complex if cplx else float)
            v[int(rng.integers(d))] = 1.0
            arrays.append(v.reshape((1, d) if i in (0, L - 1) else (1, 1, d)))
        if L == 1:
            arrays = [arrays[0].reshape(d)]
        return qtn.MatrixProductState(arrays, shape="lrp")
    arrays = []
    for i in range(L):
        shp = (chi, chi, d) if 0 < i < L - 1 else (chi, d)
        a = rng.normal(size=shp) + (1j * rng.normal(size=shp) if cplx else 0)
        arrays.append(a / chi ** 0.5)
    return qtn.MatrixProductState(arrays, shape="lrp")


def ground_space(Hd):
    ev, vecs = np.linalg.eigh(Hd)
    scale = max(1.0, float(np.abs(ev).max()))
    inside = ev - ev[0] <= 1e-6 * scale
    rest = ev[~inside]
    gap = float(rest[0] - ev[0]) if len(rest) else 0.0
    return float(ev[0]), vecs[:, inside], gap


# ----------------------------------------------------------------------------- one recorded run
def run_one(rec, rng, tid, spec):
    """drive one DMRG run under the recorder; never lets a quimb exception escape"""
    import quimb as qu
    import quimb.tensor as qtn

    hm = make_ham(rng, spec)
    ham, Hd = hm["ham"], hm["Hd"]
    L, d, bsz = spec["L"], spec["d"], spec["bsz"]
    e0, gs, gap = ground_space(Hd)
    cplx = hm["cplx"]
    p0 = make_p0(rng, spec["p0"], L, d, spec.get("chi0", 2), cplx or spec.get("p0cplx", False))
    qu.seed_rand(int(rng.integers(1 << 30)))

    # the library's operator-on-state convention, pinned on a random vector state
    phi = make_p0(rng, "random", L, d, 2, True)
    with warnings.catch_warnings():
        warnings.simplefilter("ignore")
        dapply = qdiff(U.mps_dense(ham.apply(phi)), Hd @ U.mps_dense(phi), 1e-9)

    caps = [int(c) for c in spec["caps"]]
    cuts = [float(c) for c in spec["cuts"]]
    seq = list(spec["seq"])
    run = {"ev": "run", "tid": tid, "fam": spec["fam"], "name": hm["name"], "L": L, "d": d, "bsz": bsz,
           "cyclic": False, "mode": spec["mode"], "caps": caps, "cuts12": [qabs(c, 1e-12, cap=2 * 10 ** 9) for c in cuts],
           "seq": seq, "maxsw": int(spec["maxsw"]), "tol7": qabs(spec["tol"], 1e-7), "exact": bool(spec["exact"]),
           "p0": spec["p0"], "chi0": int(spec.get("chi0", 0)) if spec["p0"] == "random" else (1 if spec["p0"] == "product" else caps[0]),
           "f": hm["f"], "g": hm["g"], "us": hm["us"],
           "e0q": q7(e0), "gap3": qabs(min(gap, 1.0), 1e-3), "herm": qdiff(Hd, Hd.conj().T, 1e-10),
           "dmpo": hm["dmpo"], "dapply": dapply, "cplx": cplx, "tconj": False,
           "ep0": IMAXQ, "ketleg": "?", "exc": ""}
    recs0 = len(rec.recs)
    rec.recs.append(run)
    try:
        with warnings.catch_warnings():
            warnings.simplefilter("ignore")
            dm = qtn.DMRG(ham, bond_dims=caps, cutoffs=cuts, bsz=bsz, p0=p0)
            if spec["exact"]:
                dm.opts["local_eig_ham_dense"] = True
                dm.opts["local_eig_backend"] = "numpy"
            elif spec.get("linop"):
                dm.opts["local_eig_ham_dense"] = False
            m0 = U.Meas(dm.state, ham, Hd)
            run["ep0"] = q7(m0.emd)
            run["ketleg"] = "upper" if dm._k.site_ind_id == dm.ham.upper_ind_id else (
                "lower" if dm._k.site_ind_id == dm.ham.lower_ind_id else "?")
            rec.arm(dm, ham, Hd, tid, cplx, d, ep0T=m0.emT, solver_seed=int(rng.integers(1 << 30)))
            conv = False
            if spec["mode"] == "solve":
                # one or several consecutive solve() calls on the same object (restart histories)
                calls = spec.get("calls") or [{"seq": "".join(seq), "caps": caps, "cuts": cuts,
                                               "maxsw": spec["maxsw"], "tol": spec["tol"]}]
                for ci, call in enumerate(calls):
                    k0 = rec.cur["k"]
                    rec.emit({"ev": "solve_start", "c": ci + 1, "seq": list(call["seq"]), "caps": [int(x) for x in call["caps"]],
                              "cuts12": [qabs(x, 1e-12, cap=2 * 10 ** 9) for x in call["cuts"]],
                              "maxsw": int(call["maxsw"]), "tol7": qabs(call["tol"], 1e-7), "tconj": False})
                    conv = dm.solve(tol=call["tol"], bond_dims=[int(x) for x in call["caps"]],
                                    cutoffs=[float(x) for x in call["cuts"]], sweep_sequence="".join(call["seq"]),
                                    max_sweeps=int(call["maxsw"]))
                    rec.emit({"ev": "solve_end", "c": ci + 1, "conv": bool(conv), "nsw": rec.cur["k"] - k0, "tconj": False})
            else:
                for k in range(spec["maxsw"]):
                    dr = seq[k % len(seq)]
                    canon = spec["canon"][k] if "canon" in spec else True
                    dm.sweep(dr, canonize=canon, max_bond=caps[min(k, len(caps) - 1)],
                             cutoff=cuts[min(k, len(cuts) - 1)], cutoff_mode=dm.opts["bond_compress_cutoff_mode"],
                             method=dm.opts["bond_compress_method"])
            rec.disarm()
            psi = dm.state
            m = U.Meas(psi, ham, Hd)
            solve = spec["mode"] == "solve"
            energy = complex(dm.energy) if solve else complex(0)
            last_end = next((r for r in reversed(rec.recs[recs0:]) if r["ev"] == "sweep_end"), {})
            fin = {"ev": "final", "tid": tid, "cplx": cplx, "bsz": bsz, "conv": bool(conv),
                   "energy": q7(energy.real), "eim": qabs(energy.imag, 1e-7),
                   "energies": [q7(complex(e).real) for e in dm.energies],
                   "ema": q7(m.ema), "emd": q7(m.emd), "n7": q7(m.n),
                   "bonds": [int(b) for b in psi.bond_sizes()], "exc": "",
                   "lasttrunc": bool(last_end.get("lasttrunc", False)),
                   "capltd": bool(last_end.get("capltd", False))}
            v = m.v / max(m.n, 1e-300) ** 0.5
            fin["infid7"] = qabs(max(0.0, 1.0 - float(np.sum(np.abs(gs.conj().T @ v) ** 2))), 1e-7)
            infidT = max(0.0, 1.0 - float(np.sum(np.abs(gs.T @ v) ** 2)))      # against conj(ground space)
            wts = []
            if spec["fam"] == "classical":
                _, Uf = U.classical_dense(hm["f"], hm["g"], hm["us"], d)
                p = np.abs(Uf.conj().T @ v) ** 2
                for idx in np.nonzero(p >= 5e-8)[0]:
                    wts.append([[int(x) for x in np.unravel_index(int(idx), (d,) * L)], qabs(p[idx], 1e-7)])
            fin["wts"] = wts
            # narrowing fields for KF-C10-1 (never used for a verdict)
            fin["tconj"] = bool(solve and cplx and abs(energy.real - m.emT) <= 2e-6 * (1 + abs(energy.real)))
            fin["tconjgs"] = bool(cplx and infidT <= 1e-5)
            rec.recs.append(fin)
    except Exception as ex:  # noqa  - an exception is an observation, the spec decides
        noniso = bool(rec.cur and rec.cur.get("fail_noniso"))
        rec.disarm()
        rec.recs.append({"ev": "final", "tid": tid, "cplx": cplx, "bsz": bsz, "conv": False, "energy": 0, "eim": 0,
                         "energies": [], "ema": 0, "emd": 0, "n7": 0, "bonds": [], "lasttrunc": False,
                         "capltd": False, "infid7": 0, "wts": [], "tconj": False, "tconjgs": False,
                         "noniso": noniso, "solverexc": type(ex).__name__ in ("ArpackNoConvergence", "ArpackError"),
                         "excname": type(ex).__name__, "Leqbsz": bool(L == bsz),
                         "exc": type(ex).__name__ + ": " + str(ex)[:120]})
    return len(rec.recs) - recs0


IMAXQ = 2 ** 31 - 1


def periodic_runs(rng, tid0):
    import quimb as qu
    import quimb.tensor as qtn

    recs = []
    for k, bsz in enumerate((1, 2)):
        L = 6
        r = {"ev": "periodic", "tid": tid0 + k, "cplx": False, "tconj": False, "bsz": bsz, "L": L, "exc": "",
             "e": 0, "ema": 0, "emd": 0, "n7": 0, "e0q": 0}
        try:
            with warnings.catch_warnings(), U.Recorder() as rec:
                warnings.simplefilter("ignore")
                qu.seed_rand(int(rng.integers(1 << 30)))
                rec.cur = {"dmrg": None, "solver_seed": int(rng.integers(1 << 30)), "neigsh": 0}   # seeds ARPACK only
                ham = qtn.MPO_ham_heis(L, j=(1.0, 1.0, float(rng.uniform(0.5, 1.5))), bz=float(rng.uniform(0, 0.5)), cyclic=True)
                Hd = np.asarray(ham.to_dense())
                dm = qtn.DMRG(ham, bond_dims=[4, 8], cutoffs=1e-10, bsz=bsz)
                dm.opts["periodic_segment_size"] = 1.0
                dm.opts["periodic_nullspace_fudge_factor"] = 1e-6
                dm.solve(tol=1e-3, max_sweeps=4)
                m = U.Meas(dm.state, ham, Hd)
                r.update(e=q7(complex(dm.energy).real), ema=q7(m.ema), emd=q7(m.emd), n7=q7(m.n),
                         e0q=q7(np.linalg.eigvalsh(Hd)[0]))
        except Exception as ex:  # noqa
            r["exc"] = type(ex).__name__ + ": " + str(ex)[:120]
        recs.append(r)
    return recs


# ----------------------------------------------------------------------------- configuration sampling
def sample_spec(rng, tier, k):
    thorough = tier == "thorough"
    d = 3 if rng.random() < 0.25 else 2
    if d == 2:
        L = int(rng.choice([4, 5, 6] if not thorough else [3, 4, 5, 6, 7, 8]))
    else:
        L = int(rng.choice([3, 4] if not thorough else [3, 4, 5]))
    if rng.random() < 0.04:
        L = 2                                   # the shortest chain (L = bsz for two-site DMRG)
    fam = "classical" if rng.random() < 0.5 else "generic"
    if fam == "classical":
        kind = str(rng.choice(["field", "ising", "degenerate", "table"]))
    else:
        kind = str(rng.choice(["randmpo", "spin", "lib_rand", "heis", "ising"], p=[0.3, 0.3, 0.15, 0.15, 0.1]))
    cplx = bool(rng.random() < 0.5)
    bsz = int(rng.choice([1, 2]))
    full = d ** (L // 2)
    style = str(rng.choice(["full", "grow", "small", "shrink", "tiny"], p=[0.4, 0.25, 0.15, 0.1, 0.1]))
    if style == "full":
        caps = [full]
    elif style == "grow":
        caps = sorted({max(d, full // 4), max(d, full // 2), full})
    elif style == "small":
        caps = [int(rng.integers(d, max(d + 1, full)))]
    elif style == "shrink":
        caps = [full, max(d, full // 2)] if bsz == 2 else [full]
    else:
        caps = [int(rng.integers(1, d))] if bsz == 2 else [d]       # cap < d : two-site only (KF-C10-2)
    cuts = [[1e-10], [0.0], [1e-12], [1e-9], [1e-6, 1e-9], [1e-8]][int(rng.integers(6))]
    seq = str(rng.choice(["R", "L", "RL", "LR", "RRL", "RLL", "LRR"]))
    p0 = str(rng.choice(["none", "random", "product"], p=[0.4, 0.45, 0.15]))
    chi0 = int(rng.choice([1, 2, full, full + 1])) if bsz == 2 else int(rng.choice([1, 2, min(caps)]))
    if bsz == 1:
        chi0 = min(chi0, min(caps))
    exact = bool(rng.random() < 0.6)
    shift = bool(rng.random() < 0.3)
    p0cplx = bool(p0 == "random" and rng.random() < 0.35)      # complex state with a real-symmetric operator
    spec = _base_spec(fam, kind, cplx, L, d, bsz, caps, cuts, seq, thorough, rng, p0, chi0, exact, shift, p0cplx)
    if rng.random() < 0.4:
        # restart history: several solve() calls on one object, other sweep sequences, stopping by a (huge)
        # tolerance or by max_sweeps
        calls = []
        for ci in range(int(rng.choice([2, 3]))):
            calls.append({"seq": str(rng.choice(["R", "L", "RL", "LR", "RRL", "RLL", "LRR", "LRL"])),
                          "caps": caps if (bsz == 2 or ci == 0) else [max(caps)], "cuts": cuts,
                          "maxsw": int(rng.choice([1, 2, 3])),
                          "tol": 1e3 if rng.random() < 0.5 else float(rng.choice([0.0, 1e-6, 1e-4]))})
        spec["calls"] = calls
    return spec


def _base_spec(fam, kind, cplx, L, d, bsz, caps, cuts, seq, thorough, rng, p0, chi0, exact, shift, p0cplx):
    return {"fam": fam, "kind": kind, "cplx": cplx, "L": L, "d": d, "bsz": bsz, "caps": caps, "cuts": cuts,
            "seq": seq, "maxsw": int(rng.choice([3, 4, 6])) if not thorough else int(rng.choice([3, 5, 8])),
            "tol": float(rng.choice([1e-6, 1e-8, 1e-4])), "p0": p0, "chi0": chi0, "exact": exact,
            "linop": bool((not exact) and rng.random() < 0.5), "mode": "solve", "shift": shift, "p0cplx": p0cplx}


def case_to_spec(case, k):
    """a script enumerated by TLC (MC_cases.cfg) -> a driver spec.  In solve mode the script is cut into
    solve() calls at its `newcall` marks; a call with tb (huge tol) stops as soon as two energies exist,
    a call without (tol = 0) runs its max_sweeps."""
    sc = case["script"]
    spec = {"fam": "classical" if k % 2 == 0 else "generic", "kind": ["field", "spin", "table", "randmpo"][k % 4],
            "cplx": bool(k % 3 == 0), "L": int(case["L"]), "d": 2, "bsz": int(case["bsz"]),
            "caps": [int(s["cap"]) for s in sc], "cuts": [1e-10], "seq": "".join(s["dir"] for s in sc),
            "canon": [bool(s["canon"]) for s in sc], "maxsw": len(sc), "tol": 0.0, "p0": "random",
            "chi0": int(case["b0"]), "exact": True, "linop": False, "mode": str(case["mode"])}
    if spec["mode"] == "solve":
        calls = []
        for s in sc:
            if s["newcall"] or not calls:
                calls.append({"seq": "", "caps": [], "cuts": [1e-10], "maxsw": 0, "tol": 1e3 if s["tb"] else 0.0})
            calls[-1]["seq"] += s["dir"]
            calls[-1]["caps"].append(int(s["cap"]))
            calls[-1]["maxsw"] += 1
        spec["calls"] = calls
    return spec


# ----------------------------------------------------------------------------- entry point
def run(ctx):
    quick = ctx.tier == "quick"
    rng = np.random.default_rng(1000 + ctx.seed)

    # 1. TLC: every script of the protocol model keeps the property-level invariants; the seeded protocol
    #    defects and the known findings are configurations that must FAIL; MC_cases prints the replay scripts.
    #    (the small runs go on in threads while the main exhaustive run uses the workers)
    def small(cfg, **kw):
        return T.run_tlc("MC_C10", cfg, ctx.spec_dir, scratch=ctx.scratch, timeout=600, **kw)

    with cf.ThreadPoolExecutor(max_workers=5) as pool:
        futs = {cfg: pool.submit(small, cfg, workers=1, allow_violation=True) for cfg, _, _ in SELFTESTS}
        fcases = pool.submit(small, "MC_cases.cfg", workers=1)
        ctx.model_check("MC_C10", "MC_quick.cfg" if quick else "MC_thorough.cfg", name="dmrg-protocol",
                        require_actions=ACTIONS, timeout=1500)
        for cfg, inv, what in SELFTESTS:
            r = futs[cfg].result()
            if r.violated != inv:
                raise MachineryError("model self-test %s: expected %s to be violated, got %s" % (cfg, inv, r.violated))
            ctx.extra.setdefault("model_selftests", []).append("%s: TLC finds a %s counterexample (%s)" % (cfg, inv, what))
        res = fcases.result()

    # 2. S->C: the scripts TLC enumerates, replayed on the real class
    cases = T.parse_printed_json(res.output)
    if len(cases) < 50:
        raise MachineryError("could not read the enumerated scripts back (%d)" % len(cases))
    cases.sort(key=lambda c: (c["L"], c["bsz"], c["mode"], str(c["script"])))
    ctx.extra["enumerated_scripts"] = len(cases)
    if quick:       # quick: every script (all restart histories of <= 3 sweeps) on the shortest chain
        # (and, of the histories made of three one-sweep calls, every second one)
        cases = [c for c in cases if c["L"] == 3 or (c["L"] == 2 and c["bsz"] == 2 and len(c["script"]) <= 2)]   # L = 2: L = bsz for DMRG2
        def ncalls(c):
            return sum(1 for x in c["script"] if x["newcall"])

        cases = [c for i, c in enumerate(cases) if not (ncalls(c) == 3 and i % 2)]
        # single-call three-sweep scripts are what the sampled runs below do anyway
        cases = [c for c in cases if not (c["mode"] == "solve" and ncalls(c) == 1 and len(c["script"]) == 3)]
    fails = []
    with U.Recorder(apply_per_update=False) as rec:
        for k, case in enumerate(cases):
            spec = case_to_spec(case, k)
            n0 = len(rec.recs)
            run_one(rec, rng, k, spec)
            rec.recs[n0]["model"] = {"sites": case["sites"], "bonds": case["bonds"]}
        rrecs = rec.recs
    ctx.sample({"replayed_script": cases[len(cases) // 2]})
    fails += ctx.validate("C10_Trace", "Trace.cfg", rrecs, name="replay", ntraces=len(cases))
    ctx.extra["replayed_scripts"] = len(cases)

    # 3. C->S: seeded runs over families / configurations
    nruns = 100 if quick else 1400
    with U.Recorder() as rec:
        for k in range(nruns):
            spec = sample_spec(rng, ctx.tier, k)
            run_one(rec, rng, 100000 + k, spec)
            if k < 3:
                ctx.sample({"run": {kk: vv for kk, vv in spec.items()}, "records": rec.recs[-3:]})
        wrecs = rec.recs
    fails += ctx.validate("C10_Trace", "Trace.cfg", wrecs, name="runs", ntraces=nruns)
    ctx.extra["dmrg_runs"] = nruns
    ctx.extra["local_updates_judged"] = sum(1 for r in rrecs + wrecs if r["ev"] == "update")

    # 4. periodic boundaries (thorough only: a run takes seconds): energy/state consistency within the
    #    documented transfer-matrix approximation (the 3e-2 relative tolerance of the repository's own tests)
    if not quick:
        precs = periodic_runs(rng, 200000)
        fails += ctx.validate("C10_Trace", "Trace.cfg", precs, name="periodic", ntraces=len(precs))
        ctx.extra["periodic_runs"] = len(precs)
    else:
        ctx.notes.append("periodic boundaries are exercised in the thorough tier only (a run takes several seconds)")

    notes = [f for f in fails if f["clause"].startswith("NOTE:")]
    for n in notes[:10]:
        ctx.notes.append("%s at tid=%s ev=%s" % (n["clause"], n["record"].get("tid"), n["record"].get("ev")))
    ctx.extra["notes_count"] = len(notes)
    ctx.clauses.update(["Returns", "InputIsHermitian", "ConventionPinned", "OracleAgrees", "ScheduleFollowed", "CanonizedWhenNeeded", "SweepOrder",
                        "SweepComplete", "NoStaleEnv", "TotalEnergyIsExpectation", "ReportedEqualsMeasured", "RoutesAgree",
                        "Variational", "Monotone", "BondCap", "UpdateKeepsNorm", "Normalized", "EnergyIsLastUpdate",
                        "EnergiesAreSweepEnds", "StopsWhenConverged", "ConvergedExact", "TraceWellFormed",
                        "ReportedEqualsMeasured.Periodic", "Normalized.Periodic",
                        "model: NoStaleEnv CanonAtUpdate PosInRange SweepOrder ReportedIsCurrent BondCap EndNormalizedAnyCap"])
    ctx.assumptions += [
        "open boundaries in the main runs; which='SA'; float64/complex128 tensors",
        "one-site DMRG: non-decreasing bond schedules and p0 within the cap (bond_dims is the size the state is expanded to)",
        "energies are compared at 1e-7 resolution; tolerances are the constants of spec/C10/Trace.cfg",
        "'untruncated' local update = discarded weight of the split <= 1e-8 (singular values of the split tensor recomputed with numpy)",
        "ConvergedExact is asserted when the run converged, the final cap admits every state, the local solver is the exact "
        "dense one and some update of the run optimised over the whole Hilbert space with no truncation since",
    ]
    ctx.judge([f for f in fails if not f["clause"].startswith("NOTE:")])
