"""C06 - applying a gate equals multiplying by the operator, in every application mode.

TLC side : spec/C06/C06_Defs.tla (ApplyRef = the statement, the dispatch table Accepts),
           spec/C06/C06_Gate.tla (state machine: every accepted route's transcription equals ApplyRef; facts of
           the reference), spec/C06/C06_Trace.tla (judges every recorded application).
Code side: small states/operators with Gaussian-integer data on every geometry class (MPS open/periodic, MPO,
           PEPS, PEPO, generic graph), gates applied through every public entry point and mode;
           S->C: behaviours simulated by TLC are replayed into quimb;
           C->S: seeded random walks (exact data, <= 3 gates) and float walks (<= 10 gates, relational).
Python only drives and observes (numpy.einsum on the tensors' public data); TLC recomputes every value.
"""

import concurrent.futures
import json
import os
import random

import numpy as np

from .. import tlc as T
from ..ctx import MachineryError
from ..snap import qdiff
from . import c06_util as U

TRI_TAIL = [(0, 1), (1, 2), (0, 2), (2, 3)]

# the same table as spec/C06/MC_C06.tla (names, classes, dims, edges)
GEOMS = {g.name: g for g in [
    U.Geom("mps3", "mps", [2, 3, 2]), U.Geom("mps4", "mps", [2, 3, 2, 2]),
    U.Geom("mpsc3", "mpsc", [3, 2, 2]), U.Geom("mpsc4", "mpsc", [2, 2, 3, 2]),
    U.Geom("mpo2", "mpo", [2, 3]), U.Geom("mpo3", "mpo", [2, 2, 2]),
    U.Geom("peps22", "peps", [2, 3, 2, 2], 2, 2), U.Geom("peps23", "peps", [2] * 6, 2, 3),
    U.Geom("pepo22", "pepo", [2, 2, 2, 2], 2, 2), U.Geom("pepo12", "pepo", [3, 2], 1, 2),
    U.Geom("gen4", "gen", [2, 3, 2, 2], edges=TRI_TAIL),
]}
# larger ones for the random walks (dense dimension <= 81 for states, <= 256 for operators in the exact walks)
WALK_GEOMS = list(GEOMS.values()) + [
    U.Geom("mps5", "mps", [2, 3, 2, 2, 3]), U.Geom("mps6", "mps", [2] * 6), U.Geom("mpsc5", "mpsc", [2, 2, 3, 2, 2]),
    U.Geom("mps4t", "mps", [3, 3, 3, 3]), U.Geom("mpo3m", "mpo", [2, 3, 2]), U.Geom("mpo4", "mpo", [2, 2, 2, 2]),
    U.Geom("peps32", "peps", [2, 2, 3, 2, 2, 2], 3, 2), U.Geom("peps22t", "peps", [3, 3, 3, 3], 2, 2),
    U.Geom("pepo22m", "pepo", [2, 2, 3, 2], 2, 2),
    U.Geom("gen5", "gen", [2, 3, 2, 2, 3], edges=TRI_TAIL + [(3, 4)]),
    U.Geom("gen6", "gen", [2] * 6, edges=[(0, 1), (1, 2), (2, 3), (3, 0), (1, 4), (4, 5)]),
]
FLOAT_GEOMS = WALK_GEOMS + [
    U.Geom("mps6m", "mps", [2, 3, 2, 3, 2, 3]), U.Geom("mpsc6", "mpsc", [2, 3, 2, 2, 3, 2]),
    U.Geom("peps23m", "peps", [2, 3, 2, 3, 2, 2], 2, 3), U.Geom("mpo5", "mpo", [2, 2, 3, 2, 2]),
    # tensors with three bonds: the only inputs on which 'reduce-split' of a sandwich really takes its QR route
    U.Geom("pepo23", "pepo", [2] * 6, 2, 3), U.Geom("pepo23", "pepo", [2] * 6, 2, 3),
]

SINGLE = ("complex64", "float32")


# --------------------------------------------------------------------------- routes (mirror of RoutesOf)
def routes_for(g):
    """every (entry, mode) spelled in the specification's table for this class, with spelling variants"""
    r = []
    gen7 = [U.mode_name(m) for m in U.BASIC + U.SPLITG]
    for m in gen7:
        r.append(dict(entry="gate", mode=m))
        r.append(dict(entry="gate_inds", mode=m))
    for v in ("tensor", "split", "network"):
        r.append(dict(entry="gate_inds_with_tn", mode="tensor", variant=v))
    for v in ("gate_", "transposed-alias", "no-preserve", "returned"):
        r.append(dict(entry="Tensor.gate", mode="gate_", variant=v))
    r.append(dict(entry="op_lazy", mode="lazy"))
    r.append(dict(entry="op_lazy", mode="lazy", full=True))
    r += [dict(entry="gate_simple", mode="exact"), dict(entry="gate_simple", mode="renorm")] * 2
    if g.cls in ("mps", "mpsc"):
        for m in U.MPS_ONLY:
            r += [dict(entry="gate", mode=m)] * 2
        r.append(dict(entry="gate_split", mode="split"))
        r.append(dict(entry="swap_sites", mode="swap"))
        r.append(dict(entry="swap_sites", mode="swap", variant="swap_site_to"))
        r.append(dict(entry="gate_with_auto_swap", mode="swap"))
        if g.cls == "mps":
            r.append(dict(entry="gate_with_auto_swap", mode="swap", variant="info"))
        for m in ("direct", "lazy", "dm", "zipup"):
            r.append(dict(entry="gate_nonlocal", mode=m))
            r.append(dict(entry="gate_with_submpo", mode=m))
            if m != "lazy":
                r.append(dict(entry="gate_with_mpo", mode=m))
    if g.kind == "op":
        for e in ("gate_upper", "gate_lower", "gate_sandwich"):
            for m in ("False", "True", "split", "reduce-split", "split-gate"):
                r.append(dict(entry=e, mode=m))
    if g.cls == "mpo":
        r += [dict(entry="gate_sandwich_with_auto_swap", mode=m) for m in ("split", "reduce-split")] * 2
    return r


def whiches_for(g, entry):
    if g.kind == "vec":
        return ["site"]
    return {"gate_upper": ["upper"], "gate_lower": ["lower"], "gate_sandwich": ["sandwich"],
            "gate_sandwich_with_auto_swap": ["sandwich"], "gate_simple": ["sandwich"],
            "gate_inds_with_tn": ["upper", "lower"], "Tensor.gate": ["upper", "lower"]}.get(entry, ["upper", "lower", "sandwich"])


def ops_for(entry, which):
    if entry == "op_lazy":
        return "NH" if which == "sandwich" else "NT"
    return U.ENTRY_OPS[entry]


# --------------------------------------------------------------------------- gates
def rand_gate(rng, nprng, gd, budget, real=False):
    """a small Gaussian-integer matrix on the factor sizes gd whose absolute row and column sums stay <= budget"""
    d = int(np.prod(gd))
    kinds = ["generic", "generic", "generic", "product", "sparse", "rankdef", "phaseperm"]
    rng.shuffle(kinds)
    for kind in kinds + ["phaseperm"]:
        if kind == "generic":
            G = U.gint(nprng, (d, d), 2, 1, real=real)
        elif kind == "product" and len(gd) > 1:
            G = np.ones((1, 1), dtype=complex)
            for x in gd:
                G = np.kron(G, U.gint(nprng, (x, x), 1, 1, real=real))
        elif kind == "sparse":
            G = U.gint(nprng, (d, d), 2, 1, density=0.4, real=real)
        elif kind == "rankdef":
            G = U.gint(nprng, (d, d), 1, 1, real=real)
            G[nprng.integers(0, d)] = 0
            if not np.any(G):
                G[0, 0] = 1
        else:
            phases = [1, -1] if real else [1, -1, 1j, -1j]
            G = np.zeros((d, d), dtype=complex)
            perm = nprng.permutation(d)
            for i in range(d):
                G[i, perm[i]] = phases[nprng.integers(0, len(phases))]
        G = np.asarray(G, dtype=complex)
        s = max(np.abs(G.real).sum(axis=1).max() + np.abs(G.imag).sum(axis=1).max(),
                np.abs(G.real).sum(axis=0).max() + np.abs(G.imag).sum(axis=0).max())
        if s <= budget:
            return G
    return None


def growth(G, which):
    s = max(np.abs(G).sum(axis=1).max(), np.abs(G).sum(axis=0).max())
    return float(s * s if which == "sandwich" else s)


def gjson(G):
    G = np.asarray(G)
    return {"rows": int(G.shape[0]), "cols": int(G.shape[1]),
            "data": [[int(round(x.real)), int(round(x.imag))] for x in G.reshape(-1)]}


def snap_vec(v, tol_abs):
    v = np.asarray(v, dtype=complex).reshape(-1)
    if not np.all(np.isfinite(v)):
        return None
    r = np.round(v.real) + 1j * np.round(v.imag)
    if np.max(np.abs(v.real - r.real), initial=0.0) > tol_abs or np.max(np.abs(v.imag - r.imag), initial=0.0) > tol_abs:
        return None
    if np.max(np.abs(r), initial=0.0) >= 2 ** 30:
        return None
    return [[int(x.real), int(x.imag)] for x in r]


QSCALE = 10 ** 4


def quantise(v):
    v = np.asarray(v, dtype=complex).reshape(-1)
    m = float(np.max(np.abs(v), initial=0.0))
    if not np.isfinite(m) or m < 1e-300:
        return [[0, 0] for _ in v]
    w = v / m * QSCALE
    return [[int(round(x.real)), int(round(x.imag))] for x in w]


# --------------------------------------------------------------------------- one trace
class Trace:
    def __init__(self, geom, tid, seed, dtype="complex128", exact=True, with_gauges=False, source="walk", graded=0):
        self.g = geom
        self.tid = tid
        self.rng = random.Random(seed)
        self.nprng = np.random.default_rng(seed)
        self.dtype = dtype
        self.single = dtype in SINGLE
        self.real = np.dtype(dtype).kind != "c"
        self.exact = exact
        self.source = source
        self.recs = []
        self.seq = 0
        self.scaled = False
        self.struct_now = True      # last observed: one tensor per site (the class's own structure)
        self.dead = False
        self.dropped = 0
        self.eps = 3e-4 if self.single else 1e-9
        self.ftol = 3e-3 if self.single else 1e-8      # relative tolerance of the float (relational) comparisons
        self.cap = 1e3 if self.single else 1e7
        self.locs = None
        # graded traces: rounding errors are set by the dominant branch (~1e-16 * GRADE * conditioning) also after
        # that branch has been projected out, so the snap tolerance keeps an absolute floor (the data are integers)
        self.tol_floor = 1e-3 if graded else 0.0
        if graded:
            # K * product state + entangled state, exact integers: small but non-zero Schmidt coefficients
            self.tn, self.locs = U.build_graded(geom, self.nprng, graded, dtype=dtype)
            self.cap = 2.5e8
            self.eps = 1e-10
        elif exact:
            small = self.single or geom.densedim() > 100
            self.tn = U.build(geom, self.nprng, bond=2, dtype=dtype, re=1 if small else 2, im=1)
        else:
            self.tn = U.build(geom, self.nprng, bond=2, dtype=dtype)
            for t in self.tn.tensors:
                x = self.nprng.normal(size=t.shape)
                if not self.real:
                    x = x + 1j * self.nprng.normal(size=t.shape)
                t.modify(data=x.astype(dtype))
        self.gauges = None
        if with_gauges:
            # positive integer bond gauges: the state is the network with the gauges multiplied onto its bonds
            self.gauges = {ix: np.array([1.0, 2.0, 1.0, 3.0][: self.tn.ind_size(ix)]) for ix in self.tn.inner_inds()}
            self.cap = min(self.cap, 4e4)
        o = self.observe(self.tn)
        self.cur = o["v"]
        self.maxabs = float(np.max(np.abs(self.cur), initial=0.0))
        rec = {"ev": "new", "geom": geom.as_json(), "exact": bool(exact), "dtype": dtype, "source": source,
               "psi": [], "outer": o["outer"], "sitetags": o["sitetags"], "struct": o["struct"]}
        if exact:
            sv = snap_vec(self.cur, 1e-9)
            if sv is None:
                raise MachineryError("initial network is not on the integer lattice")
            rec["psi"] = sv
        self.log(rec)

    def log(self, rec):
        rec["tid"] = self.tid
        rec["seq"] = self.seq
        self.seq += 1
        self.recs.append(rec)

    def observe(self, tn):
        o = {"v": None}
        try:
            o["v"] = U.np_dense(tn, U.out_inds(self.g, tn), self.gauges)
        except Exception as ex:  # noqa  (a missing outer label: reported through `outer`)
            o["densefail"] = "%s: %s" % (type(ex).__name__, str(ex)[:120])
        o["outer"] = sorted(str(i) for i in tn.outer_inds())
        try:
            o["sitetags"] = U.site_tags_present(self.g, tn)
            o["struct"] = bool(U.structure_kept(self.g, tn))
        except Exception as ex:  # noqa
            o["sitetags"] = ["<%s>" % type(ex).__name__]
            o["struct"] = False
        return o

    def absorb_gauges(self):
        """simple-update gauges are multiplied into the network before a different kind of application"""
        if self.gauges:
            self.tn.gauge_simple_insert(self.gauges)
            self.gauges = {}

    def budget(self, which):
        b = (min(self.cap, 4e4) if self.scaled else self.cap) / max(self.maxabs, 1.0)
        return b ** 0.5 if which == "sandwich" else b

    def step(self, a):
        """apply one gate; returns False if it was not attempted (magnitude budget)"""
        g = self.g
        if self.dead:
            return False
        G = np.asarray(a["G"], dtype=complex)
        simple = a["entry"] == "gate_simple"
        # comparisons up to a positive scalar multiply observation and reference in TLC's 32-bit integers
        cap = min(self.cap, 4e4) if (self.scaled or (simple and a["mode"] == "renorm")) else self.cap
        if self.maxabs * growth(G, a["which"]) > cap:
            self.dropped += 1
            return False
        if simple and self.cur is not None:
            # Input restriction (not a verdict): simple update stores the new singular values as bond gauges, inverts
            # them and (renorm) normalises them, which is undefined for the zero state.  A gate that annihilates the
            # current state (rank deficient integer gates do that now and then) is therefore not given to gate_simple:
            # quimb returns NaN (zero gauges inverted) or, with renorm=True, rounding noise scaled to norm one.
            # The numpy transcription of the reference is used here only to choose inputs.
            r0 = U.ref_apply(G, self.g.dims, list(a["pos"]), self.cur, a["op"], a["which"])
            big = float(np.max(np.abs(self.cur), initial=0.0)) * growth(G, a["which"])
            if float(np.max(np.abs(r0), initial=0.0)) <= 1e-6 * max(big, 1e-300):
                self.annihilated = getattr(self, "annihilated", 0) + 1
                return False
        if simple and self.gauges is None:
            self.gauges = {}
        if not simple:
            self.absorb_gauges()
        a = dict(a)
        a["G"] = G.real.astype(self.dtype) if self.real else G.astype(self.dtype)
        renorm = simple and a["mode"] == "renorm"
        # the flag combination; the specification's RefOp says which operator it stands for, whatever the route
        eop = a["op"]
        inplace = bool(a.get("inplace")) or simple
        tn0 = self.tn
        rec = {"ev": "apply" if self.exact else "rel", "entry": a["entry"], "mode": a["mode"],
               "sites": [int(p) + 1 for p in a["pos"]], "G": gjson(G) if self.exact else {"rows": int(G.shape[0]), "cols": int(G.shape[1]), "data": []},
               "given": a.get("given", "matrix"), "op": a["op"], "which": a["which"], "inplace": inplace,
               "ptags": str(a.get("ptags", "default")), "cutoff": "default" if a.get("cutoff") is None else str(a["cutoff"]),
               "variant": str(a.get("variant", "")), "renorm": bool(renorm), "dtype": self.dtype, "source": self.source,
               "exc": "", "psi": [], "ongrid": False, "psiq": [], "recv": [], "recv_checked": False, "qd": 0, "recvqd": 0,
               "cls": g.cls, "k": len(a["pos"]), "effop": U.eff_op(eop)}
        out = None
        # an in-place call that raises half way may leave its receiver modified: the trace continues on a copy
        # taken before the call (what the receiver looks like after the failure is still observed and logged)
        backup = (tn0.copy(), None if self.gauges is None else dict(self.gauges)) if inplace else None
        try:
            out = U.apply_entry(tn0, g, a, gauges=self.gauges)
        except Exception as ex:  # noqa  an observation: the table decides whether a rejection is allowed
            rec["exc"] = type(ex).__name__
            rec["excmsg"] = str(ex)[:200]
        tol_abs = max(self.eps * (1.0 + self.maxabs * growth(G, a["which"])), self.tol_floor)
        if rec["exc"] == "":
            o = self.observe(out)
            rec.update(outer=o["outer"], sitetags=o["sitetags"], struct=o["struct"])
            if "densefail" in o:
                rec["densefail"] = o["densefail"]
            v = o["v"]
            if self.exact:
                self.scaled = self.scaled or renorm
                if v is not None:
                    if self.scaled:
                        rec["psiq"] = quantise(v)
                    else:
                        sv = snap_vec(v, tol_abs)
                        rec["ongrid"] = sv is not None
                        rec["psi"] = sv or []
                        if sv is None:
                            rec["raw_head"] = [str(x) for x in np.asarray(v).reshape(-1)[:6]]
                            self.dead = True        # no exact observation to continue from: the trace ends here
                else:
                    self.dead = True
                if (not inplace) and (out is not tn0) and not self.scaled:
                    r0 = self.observe(tn0)
                    sr = snap_vec(r0["v"], max(self.eps * (1 + self.maxabs), self.tol_floor)) if r0["v"] is not None else None
                    rec["recv_checked"] = True
                    rec["recv"] = sr or []
            else:
                ref = U.ref_apply(a["G"], g.dims, list(a["pos"]), self.cur, eop, a["which"])
                if v is None:
                    rec["qd"] = 999990
                    self.dead = True
                elif renorm:
                    nr = np.vdot(ref, ref)
                    c = np.vdot(ref, v) / nr if abs(nr) > 0 else 0.0
                    rec["qd"] = qdiff(v, c * ref, self.ftol) + (0 if (abs(c.imag) <= self.ftol * abs(c) and c.real > 0) else 777)
                else:
                    rec["qd"] = qdiff(v, ref, self.ftol)
                if (not inplace) and (out is not tn0):
                    r0 = self.observe(tn0)
                    rec["recv_checked"] = True
                    rec["recvqd"] = qdiff(r0["v"], self.cur, self.ftol * 1e-2) if r0["v"] is not None else 999990
            self.tn = out
            self.struct_now = bool(o["struct"])
            if v is not None:
                self.cur = np.asarray(v).reshape(-1)
                if not self.scaled:
                    self.maxabs = float(np.max(np.abs(self.cur), initial=0.0))
                else:
                    # the observed state is a positive multiple of the reference: track the reference's magnitude
                    self.maxabs = self.maxabs * growth(G, a["which"])
        else:
            o = self.observe(tn0)
            rec.update(outer=o["outer"], sitetags=o["sitetags"], struct=o["struct"])
            if self.exact and not self.scaled:
                sr = snap_vec(o["v"], max(self.eps * (1 + self.maxabs), self.tol_floor)) if o["v"] is not None else None
                rec["recv_checked"] = True
                rec["recv"] = sr or []
            elif not self.exact:
                rec["recv_checked"] = True
                rec["recvqd"] = qdiff(o["v"], self.cur, self.ftol * 1e-2) if o["v"] is not None else 999990
            if backup is not None:
                self.tn, self.gauges = backup
        self.log(rec)
        return True


# --------------------------------------------------------------------------- choosing the free options of a call
def decorate(rng, g, a):
    """options the abstract action does not fix: how the gate is given, tag propagation, in place or not, cutoff"""
    a = dict(a)
    k = len(a["pos"])
    a["given"] = rng.choice(["matrix", "tensor"])
    a["inplace"] = rng.random() < 0.4
    e, m = a["entry"], a["mode"]
    if e == "gate":
        a["ptags"] = rng.choice(["sites", "register", False, True])
        if rng.random() < 0.3:
            del a["ptags"]
        if rng.random() < 0.3:
            a["tags"] = ["GT"]
        a["bare_site"] = k == 1 and rng.random() < 0.5
        a["which_default"] = rng.random() < 0.5
        a["which_both"] = rng.random() < 0.3
        a["which_explicit"] = rng.random() < 0.3
    a["cutoff"] = 0.0
    if m in ("split-gate", "swap-split-gate", "auto-split-gate", "False", "True") and rng.random() < 0.5:
        a["cutoff"] = None          # library default (1e-10): integer gates have exactly zero or O(1) singular values
    if e in ("gate_nonlocal", "gate_with_submpo", "gate_with_mpo", "gate_sandwich_with_auto_swap"):
        a["mode_default"] = rng.random() < 0.5
    if e == "gate_with_submpo":
        a["where_inferred"] = rng.random() < 0.4
    if e == "gate_with_mpo" and len(set(g.dims)) == 1 and rng.random() < 0.5:
        a["fill"] = rng.choice(["full", "minimal"])
    if e == "gate_simple":
        # library default cutoff (1e-10): singular values that are exactly zero (rank deficient integer gates) are
        # dropped, the bond gauges stay invertible; nothing non-zero is truncated
        a["cutoff"] = None
        a["smudge"] = rng.choice([None, 0.0])
        a["renorm_default"] = rng.random() < 0.5
        if k == 2 and g.adjacent(*a["pos"]) and rng.random() < 0.4:
            a["simple_contract"] = rng.choice(["split", "reduce-split"])
    return a


STRUCTURED = ("gate_split", "gate_with_auto_swap", "gate_sandwich_with_auto_swap", "swap_sites", "gate_simple",
              "gate_nonlocal", "gate_with_submpo", "gate_with_mpo")


def needs_structure(e, m):
    """routes written for one tensor per site (they canonicalise / compress the chain or gauge a pair of sites)"""
    return (e in STRUCTURED and m != "lazy") or (e == "gate" and m in U.MPS_ONLY)


def random_action(rng, nprng, tr, routes, maxk=3, wild=0.12, structured_only_on_struct=False):
    """a random gate through a random route; mostly routes the table accepts for the arity, sometimes not"""
    g = tr.g
    for _ in range(30):
        r = dict(rng.choice(routes))
        e, m = r["entry"], r["mode"]
        if needs_structure(e, m) and not getattr(tr, "struct_now", True):
            # After lazy gates / merged sites the chain routes either raise or contract and re-split everything
            # (the table says "maybe"); with cutoff 0 that leaves bonds of size 50-200 and a second such call costs
            # minutes.  Long walks do not offer them any more; the short exact walks offer them only while the
            # network is still small.
            tn = getattr(tr, "tn", None)
            if structured_only_on_struct or tn is None or tn.num_tensors > g.n + 3 or max(t.size for t in tn.tensors) > 2000:
                continue
        k = rng.choice([1, 2, 2, 2, 3]) if maxk >= 3 else rng.choice([1, 2, 2])
        if e == "Tensor.gate":
            k = 1
        k = min(k, g.n, 2 if g.kind == "op" and g.D > 8 else 3)
        if rng.random() > wild:
            # steer to arities the route is made for
            if e in ("gate_split", "gate_with_auto_swap", "gate_sandwich_with_auto_swap", "swap_sites") or m in ("swap+split", "split-gate", "swap-split-gate"):
                k = min(2, g.n)
            if m in ("split", "reduce-split") and e != "gate_sandwich_with_auto_swap" and e != "gate_split":
                k = min(k, 2)
            if e == "gate_simple":
                k = min(k, 2)
        pos = rng.sample(range(g.n), k)
        if rng.random() > wild and k == 2 and (e == "gate_split" or (m in ("split", "reduce-split") and e in ("gate", "gate_inds", "gate_upper", "gate_lower", "gate_sandwich"))):
            a_, b_ = rng.choice(g.edges)
            pos = [a_, b_] if rng.random() < 0.5 else [b_, a_]
        which = rng.choice(whiches_for(g, e))
        op = rng.choice(ops_for(e, which))
        if e == "swap_sites":
            # two sites of equal size; the "gate" is the SWAP matrix
            pairs = [(x, y) for x in range(g.n) for y in range(g.n) if x != y and g.dims[x] == g.dims[y]]
            if not pairs:
                continue
            pos = list(rng.choice(pairs))
            if r.get("variant") == "swap_site_to":
                x = rng.randrange(g.n - 1)
                if g.dims[x] != g.dims[x + 1]:
                    continue
                pos = [x, x + 1] if rng.random() < 0.5 else [x + 1, x]
            a = dict(r, pos=pos, which="site", op="N", G=U.swap_matrix(g.dims[pos[0]]))
            return decorate(rng, g, a)
        if e == "gate" and m in ("nonlocal", "auto-mps", "swap+split") and rng.random() < 0.7:
            op = rng.choice("NT")
        gd = [g.dims[p] for p in pos]
        G = rand_gate(rng, nprng, gd, tr.budget(which), real=tr.real)
        if G is None:
            continue
        a = dict(r, pos=pos, which=which, op=op, G=G)
        return decorate(rng, g, a)
    return None


# --------------------------------------------------------------------------- S->C: replay of TLC's behaviours
def replay(beh, tid, seed, dtype):
    first = beh[0]
    g = GEOMS[first["geom"]]
    if list(first["dims"]) != list(g.dims):
        raise MachineryError("geometry table of the model and of the driver differ for %s" % g.name)
    rng = random.Random(seed)
    uses_simple = any(x["entry"] == "gate_simple" for x in beh)
    tr = Trace(g, tid, seed, dtype=dtype, exact=True, with_gauges=uses_simple and rng.random() < 0.6, source="replay")
    done = 0
    for x in beh:
        G = np.array([complex(re, im) for re, im in x["G"]["data"]]).reshape(x["G"]["rows"], x["G"]["cols"])
        if tr.real:
            G = G.real.astype(complex)
        a = dict(entry=x["entry"], mode=x["mode"], pos=[int(s) - 1 for s in x["sites"]], op=x["op"], which=x["which"], G=G)
        if a["entry"] == "gate_inds_with_tn":
            a["variant"] = rng.choice(["tensor", "split", "network"])
        if a["entry"] == "Tensor.gate":
            a["variant"] = rng.choice(["gate_", "transposed-alias", "no-preserve", "returned"])
        if a["entry"] == "gate_with_auto_swap" and g.cls == "mps":
            a["variant"] = rng.choice(["", "info"])
        if a["entry"] == "op_lazy":
            a["full"] = rng.random() < 0.3
        a = decorate(rng, g, a)
        if not tr.step(a):
            break
        tr.recs[-1]["model_kind"] = x["kind"]
        done += 1
    return tr, done


def simulated_behaviours(ctx, nsim):
    res = T.run_tlc("MC_C06", "MC_sim.cfg", ctx.spec_dir, workers=1, coverage=False, simulate="num=%d" % nsim,
                    depth=12, seed=17 + ctx.seed, scratch=ctx.scratch, timeout=900)
    behs = [b for b in T.parse_printed_json(res.output) if isinstance(b, list) and b]
    if len(behs) < nsim // 2:
        raise MachineryError("could not read the simulated behaviours back (%d of %d)" % (len(behs), nsim))
    return behs


# --------------------------------------------------------------------------- targeted: the real 'reduce-split' route
def targeted_traces(rng, tid0, rounds):
    """'reduce-split' only takes its QR route when a site tensor has three or more other legs (else it falls back to
    'split'): 2x3 grids and a graph with a degree-three node, pairs that contain such a tensor, every op, through
    gate / gate_inds / gate_sandwich / gate_simple (whose default contraction is 'reduce-split')."""
    geoms = [(U.Geom("pepo23", "pepo", [2] * 6, 2, 3), False), (GEOMS["peps23"], True),
             (U.Geom("gen6", "gen", [2] * 6, edges=[(0, 1), (1, 2), (2, 3), (3, 0), (1, 4), (4, 5)]), True),
             (U.Geom("peps23m", "peps", [2, 3, 2, 3, 2, 2], 2, 3), False)]
    out = []
    for rd in range(rounds):
        for g, exact in geoms:
            deg = {k: sum(1 for e in g.edges if k in e) for k in range(g.n)}
            pairs = [e for e in g.edges if deg[e[0]] >= 3 or deg[e[1]] >= 3]
            tr = Trace(g, tid0 + len(out), rng.randrange(1 << 30), dtype="complex128", exact=exact, source="targeted")
            if not exact:
                tr.cap = 1e30
            entries = ["gate", "gate_inds", "gate_simple"] + (["gate_sandwich"] if g.kind == "op" else [])
            n = 0
            for _ in range(12):
                if n >= (3 if exact else 5):
                    break
                e = rng.choice(entries)
                a_, b_ = rng.choice(pairs)
                pos = [a_, b_] if rng.random() < 0.5 else [b_, a_]
                which = "sandwich" if g.kind == "op" else "site"
                G = rand_gate(tr.rng, tr.nprng, [g.dims[p] for p in pos], tr.budget(which))
                if G is None:
                    break
                a = dict(entry=e, mode="exact" if e == "gate_simple" else "reduce-split", pos=pos, which=which,
                         op=rng.choice("NTHB"), G=G)
                a = decorate(rng, g, a)
                a.pop("simple_contract", None)
                if tr.step(a):
                    n += 1
            out.append(tr)
    return out


# --------------------------------------------------------------------------- graded Schmidt spectra, exact regime
GRADE = 4 * 10 ** 6
GRADED_GEOMS = [U.Geom("mps4g", "mps", [2, 3, 2, 2]), U.Geom("mps5g", "mps", [2, 2, 2, 2, 2]), U.Geom("mps4h", "mps", [3, 2, 2, 3]),
                U.Geom("mps5h", "mps", [2, 3, 2, 2, 3]), U.Geom("mpo3g", "mpo", [2, 2, 2]), U.Geom("mpo4g", "mpo", [2, 2, 2, 2])]


def graded_routes(g):
    if g.kind == "op":
        return ([dict(entry="gate_sandwich_with_auto_swap", mode=m) for m in ("split", "reduce-split")] * 2
                + [dict(entry=e, mode=m) for e in ("gate", "gate_sandwich", "gate_upper", "gate_inds") for m in ("split", "reduce-split", "True", "False")])
    r = [dict(entry="gate", mode=m) for m in ("swap+split", "auto-mps", "nonlocal")] * 3
    r += [dict(entry="gate_with_auto_swap", mode="swap"), dict(entry="gate_with_auto_swap", mode="swap", variant="info")] * 2
    r += [dict(entry="swap_sites", mode="swap"), dict(entry="swap_sites", mode="swap", variant="swap_site_to")]
    r += [dict(entry=e, mode=m) for e in ("gate_nonlocal", "gate_with_submpo", "gate_with_mpo") for m in ("direct", "dm", "zipup")]
    r += [dict(entry="gate", mode=m) for m in ("split", "reduce-split", "True", "split-gate")] + [dict(entry="gate_split", mode="split")]
    return r


def graded_traces(rng, tid0, n):
    """The exact regime on states that carry small but non-zero Schmidt coefficients:  GRADE * product state +
    entangled state  with integer data (squared relative Schmidt weight ~ 1e-11: a default cutoff would discard it,
    cutoff=0 must not), every call with cutoff=0.0, mostly on distant sites, with generic gates and with the
    projector n.1 - |a><a| that removes the dominant branch (the answer then lives in the small branch alone)."""
    out = []
    for k in range(n):
        g = GRADED_GEOMS[k % len(GRADED_GEOMS)]
        tr = Trace(g, tid0 + k, rng.randrange(1 << 30), dtype="complex128" if k % 3 else "float64", exact=True,
                   source="graded", graded=GRADE)
        routes = graded_routes(g)
        steps = 0
        for _ in range(10):
            if steps >= 3:
                break
            r = dict(tr.rng.choice(routes))
            e, m = r["entry"], r["mode"]
            kk = 2
            if e in ("gate_nonlocal", "gate_with_submpo", "gate_with_mpo") or m in ("nonlocal", "auto-mps", "True", "False"):
                kk = tr.rng.choice([2, 2, 3]) if g.kind == "vec" else 2
            if e == "swap_sites":
                a = random_action(tr.rng, tr.nprng, tr, [r], wild=0.0)
                if a is None:
                    continue
            else:
                far = [(x, y) for x in range(g.n) for y in range(g.n) if abs(x - y) >= 2]
                if e == "gate_split" or (m in ("split", "reduce-split") and e != "gate_sandwich_with_auto_swap"):
                    x = tr.rng.randrange(g.n - 1)
                    pos = [x, x + 1] if tr.rng.random() < 0.5 else [x + 1, x]
                elif kk == 2 and tr.rng.random() < 0.8:
                    pos = list(tr.rng.choice(far))
                else:
                    pos = tr.rng.sample(range(g.n), kk)
                which = "site" if g.kind == "vec" else ("upper" if e == "gate_upper" else ("sandwich" if e != "gate_inds" else tr.rng.choice(["upper", "sandwich"])))
                op = tr.rng.choice(ops_for(e, which))
                if e == "gate" and m in ("swap+split", "auto-mps") and len(pos) == 2:
                    op = tr.rng.choice("NT")
                gd = [g.dims[p] for p in pos]
                if steps == 0 or tr.rng.random() < 0.5:
                    P = U.kill_gate(g, tr.locs, pos)
                    if tr.real:
                        P = P.real.astype(complex)
                    G = P.T if op == "T" else P         # the operator that is applied (G^op) is the projector
                    if tr.rng.random() < 0.5:
                        G = G * tr.rng.choice([1, -1] if tr.real else [1, -1, 1j])
                else:
                    G = rand_gate(tr.rng, tr.nprng, gd, min(tr.budget(which), 12.0), real=tr.real)
                    if G is None:
                        continue
                a = dict(r, pos=pos, which=which, op=op, G=G)
                a = decorate(tr.rng, g, a)
            a["cutoff"] = 0.0                        # the exact regime, on every call
            a.pop("fill", None)
            if tr.step(a):
                steps += 1
        out.append(tr)
    return out


# --------------------------------------------------------------------------- numpy reference <-> specification
def ref_records(seed, n, tid0):
    rng = random.Random(seed)
    nprng = np.random.default_rng(seed)
    recs = []
    for i in range(n):
        kind = rng.choice(["vec", "vec", "op"])
        nsites = rng.choice([2, 3, 4]) if kind == "vec" else rng.choice([2, 2, 3])
        dims = [rng.choice([2, 2, 3]) for _ in range(nsites)]
        if kind == "op" and int(np.prod(dims)) > 12:
            dims = [2] * nsites
        k = rng.choice([1, 2, 3]) if nsites >= 3 else rng.choice([1, 2])
        pos = rng.sample(range(nsites), k)
        gd = [dims[p] for p in pos]
        d = int(np.prod(gd))
        G = U.gint(nprng, (d, d), 2, 1)
        D = int(np.prod(dims))
        v = U.gint(nprng, (D if kind == "vec" else D * D,), 2, 2)
        which = "site" if kind == "vec" else rng.choice(["upper", "lower", "sandwich"])
        op = rng.choice("NTHBC")
        out = U.ref_apply(G, dims, pos, v, op, which)
        recs.append({"ev": "ref", "tid": tid0 + i, "dims": dims, "sites": [p + 1 for p in pos], "G": gjson(G), "op": op,
                     "which": which, "psi": snap_vec(v, 1e-9), "out": snap_vec(out, 1e-9)})
    return recs


# --------------------------------------------------------------------------- run
def run(ctx):
    U.quiet()
    quick = ctx.tier == "quick"
    rng = random.Random(606 + ctx.seed)

    # 1. TLC, exhaustive: every accepted route's transcription equals the reference update.
    #    The independent TLC runs (exhaustive run, small coverage run, mutant self-tests, simulation for the
    #    replay) are started together: 8 + 2 + 4 + 1 workers.
    fams = ("Choose", "ApplyWired", "ApplySandwich", "ApplySwapped", "ApplySubMpo", "ApplyOpLazy", "Reject", "CheckFacts")
    muts = [("MC_mut_noflip.cfg", "gate_with_auto_swap without flipping the gate for i > j"),
            ("MC_mut_nosort.cfg", "sub-MPO route without re-sorting the gate legs"),
            ("MC_mut_sandwich.cfg", "dagger sandwich without exchanging the two arrays"),
            ("MC_mut_dagger.cfg", "'nonlocal' mode dropping dagger, as before fix 0665402c"),
            ("MC_mut_flags.cfg", "gate_inds flipping transpose under dagger instead of implying it (both flags -> conj G)"),
            ("MC_mut_nonlocalxor.cfg", "'nonlocal' mode flipping transpose under dagger, as between 0665402c and 0a1463db")]
    if quick:
        muts = [muts[4], muts[ctx.seed % 4]]
    nsim = 140 if quick else 1500

    def main_mc():
        return ctx.model_check("MC_C06", "MC_quick.cfg" if quick else "MC_thorough.cfg", name="routes-agree", coverage=False,
                               timeout=2400, workers=8 if quick else 12)

    def cover_mc():
        # per-action coverage from a small run (TLC's coverage instrumentation is far too slow on the exact
        # arithmetic of the large run)
        return ctx.model_check("MC_C06", "MC_cover.cfg", name="coverage", require_actions=fams, workers=2, timeout=900)

    def mutants():
        out = []
        for cfg, what in muts:
            r = T.run_tlc("MC_C06", cfg, ctx.spec_dir, workers=3, allow_violation=True, scratch=ctx.scratch, timeout=900)
            if r.violated != "RoutesAgree":
                raise MachineryError("model self-test %s: expected RoutesAgree to be violated" % cfg)
            out.append("%s: TLC finds a RoutesAgree counterexample (%s)" % (cfg, what))
        return out

    if os.environ.get("C06_ONLY_TRACES"):     # development aid (mutation runs against another quimb tree): the
        main_mc = cover_mc = lambda: None     # model runs do not depend on quimb
        mutants = lambda: ["skipped"]         # noqa
    pool = concurrent.futures.ThreadPoolExecutor(max_workers=4)
    futs = [pool.submit(f) for f in (main_mc, cover_mc, mutants)]
    fsim = pool.submit(simulated_behaviours, ctx, nsim)

    dtypes = ["complex128"] * 7 + ["float64", "complex64", "float32"]

    def walks():
        recs = []
        ntr = 0
        # (the walks do not depend on TLC: they are driven while the TLC runs are busy)
        # 3. C->S: random walks with exact data, <= 3 gates
        nwalk = 260 if quick else 4000
        for k in range(nwalk):
            g = rng.choice(WALK_GEOMS)
            dt = dtypes[k % len(dtypes)]
            routes = routes_for(g)
            first = random_action(rng, np.random.default_rng(rng.randrange(1 << 30)), _Probe(g, dt), routes)
            tr = Trace(g, ntr, rng.randrange(1 << 30), dtype=dt, exact=True,
                       with_gauges=(first is not None and first["entry"] == "gate_simple" and rng.random() < 0.7), source="walk")
            n = 0
            tries = 0
            while n < 3 and tries < 8:
                tries += 1
                a = first if (tries == 1 and first is not None) else random_action(tr.rng, tr.nprng, tr, routes)
                if a is None:
                    break
                if tr.step(a):
                    n += 1
            recs += tr.recs
            ntr += 1

        # 4. C->S: longer walks with float data, judged through the numpy transcription of the reference
        nfl = 40 if quick else 500
        for k in range(nfl):
            g = rng.choice(FLOAT_GEOMS)
            dt = ["complex128", "complex128", "float64", "complex64"][k % 4]
            tr = Trace(g, ntr, rng.randrange(1 << 30), dtype=dt, exact=False, source="float-walk")
            tr.cap = 1e30
            routes = routes_for(g)
            n = 0
            tries = 0
            L = rng.randint(4, 10)
            while n < L and tries < 3 * L:
                tries += 1
                a = random_action(tr.rng, tr.nprng, tr, routes, wild=0.05, structured_only_on_struct=True)
                if a is None:
                    break
                if tr.tn.num_tensors > 40:
                    break
                if tr.step(a):
                    n += 1
            recs += tr.recs
            ntr += 1

        # 4a. graded Schmidt spectra in the exact regime (cutoff = 0 on every call)
        for tr in graded_traces(rng, ntr, 48 if quick else 600):
            recs += tr.recs
            ntr += 1

        # 4b. the real 'reduce-split' route (tensors with three or more other legs)
        for tr in targeted_traces(rng, ntr, 1 if quick else 12):
            recs += tr.recs
            ntr += 1
        return recs, ntr

    # 2. S->C: simulated behaviours of the model replayed into quimb
    try:
        recs, ntr = walks()
        for f in futs:
            f.result()
        ctx.extra["model_selftests"] = futs[2].result()
        behs = fsim.result()
    finally:
        pool.shutdown(wait=True)
    steps = 0
    for k, b in enumerate(behs):
        tr, done = replay(b, ntr, 1000 * ctx.seed + k, dtypes[k % len(dtypes)])
        recs += tr.recs
        steps += done
        ntr += 1
    ctx.extra["replayed_behaviours"] = len(behs)
    ctx.extra["replayed_steps"] = steps
    ctx.sample({"replayed_behaviour": [{kk: vv for kk, vv in x.items() if kk != "G"} for x in behs[0]]})

    # 5. the numpy transcription of the reference agrees with the specification
    rrecs = ref_records(99 + ctx.seed, 60 if quick else 600, 10 ** 6)

    if os.environ.get("C06_DUMP"):      # debugging aid: keep the records that are about to be judged
        with open(os.environ["C06_DUMP"], "w") as fh:
            for r in recs:
                fh.write(json.dumps(r, default=str) + "\n")
    fails = ctx.validate("C06_Trace", "Trace.cfg", recs, name="gates", ntraces=ntr, chunk=3000)
    rfails = ctx.validate("C06_Trace", "Trace.cfg", rrecs, name="refbinding", ntraces=len(rrecs))
    if any(f["clause"] == "HarnessOpBinding" for f in fails):
        raise MachineryError("the operator the driver used for its numpy reference (eff_op) disagrees with the specification's EffOp")
    if rfails:
        raise MachineryError("the numpy transcription of ApplyRef disagrees with the specification: %r" % (rfails[0]["record"],))

    # what was exercised
    stats = {}
    for r in recs:
        if r["ev"] in ("apply", "rel"):
            key = "%s|%s:%s|k=%d|%s" % (r["cls"], r["entry"], r["mode"], r["k"], "ok" if r["exc"] == "" else "raised")
            stats[key] = stats.get(key, 0) + 1
    ctx.extra["applications"] = sum(stats.values())
    ctx.extra["applications_returned"] = sum(v for k, v in stats.items() if k.endswith("|ok"))
    ctx.extra["applications_rejected"] = sum(v for k, v in stats.items() if k.endswith("|raised"))
    ctx.extra["routes_exercised"] = len({k.rsplit("|", 2)[0] for k in stats})
    ctx.extra["by_route"] = dict(sorted(stats.items()))
    ctx.sample({"trace": [{kk: vv for kk, vv in r.items() if kk not in ("psi", "G", "recv", "psiq")} for r in recs[:4]]})

    notes = [f for f in fails if f["clause"].startswith("NOTE:")]
    for n in notes[:20]:
        r = n["record"]
        ctx.notes.append("model-drift %s: %s %s:%s k=%d %s %s" % (n["clause"], r.get("cls"), r.get("entry"), r.get("mode"), r.get("k", 0), r.get("op"), r.get("which")))
    ctx.extra["model_drift_notes"] = len(notes)
    ctx.clauses.update(["WellFormed", "WellPosed", "Returns", "OnGrid", "ValueExact", "ValueUpToScale", "ValueRel", "OuterSame",
                        "SiteTagsSame", "StructureKept", "ReceiverUnchanged", "ReceiverUnchangedRel", "RejectionClean",
                        "RejectionCleanValue", "RefBinding", "HarnessOpBinding", "model: RoutesAgree NamingKept RejectStutters TypeOK + facts of the reference"])
    ctx.assumptions += [
        "exact domain: Gaussian-integer tensors (|re|<=2, |im|<=1, bond 2) and gates; site dimensions in {2,3}; dense dimension <= 81 (states) / 256 (operators)",
        "cutoff=0 (or the library default 1e-10 for the gate-splitting modes with integer gates whose singular values are exactly zero or O(1)): no truncation",
        "rejections (exceptions) are judged against the dispatch table: 'yes' must return, anything that returns must satisfy the property",
        "gate_simple: the state is the network with the bond gauges multiplied in; renorm=True is compared up to a positive scalar (quantised to 1e-4)",
        "gate_upper/lower/sandwich_with_op_lazy are given an operator covering every site (documented: matching structure)",
        "graded traces: 4e6 * product state + entangled state with integer data (squared relative Schmidt weight ~1e-11), cutoff=0.0 on every call; snap tolerance 1e-10 relative to the magnitude bound with an absolute floor of 1e-3 (the small branch has integer amplitudes)",
        "gate_simple is not given a gate that annihilates the current state (G.psi = 0): bond gauges of the zero state cannot be inverted or renormalised (quimb then returns NaN, or noise of norm one with renorm=True); every other entry point is judged on such inputs (the zero vector must come back)",
        "dtype float32/complex64 traces stop when the magnitude bound exceeds 1e3 (snap tolerance 3e-4 relative to the bound)",
    ]
    for f in fails:
        rec = f["record"]
        if len(str(rec)) > 6000:
            f["record"] = {k: v for k, v in rec.items() if k not in ("psi", "recv", "psiq")}
    ctx.judge([f for f in fails if not f["clause"].startswith("NOTE:")])


class _Probe:
    """enough of a Trace for random_action to choose the first gate before the trace exists"""

    def __init__(self, g, dtype):
        self.g = g
        self.real = np.dtype(dtype).kind != "c"
        self.cap = 1e3 if dtype in SINGLE else 1e7

    def budget(self, which):
        b = self.cap / 60.0
        return b ** 0.5 if which == "sandwich" else b
