"""C06 helpers: small exact states/operators on every geometry class, plain-numpy densification,
the numpy reference written from the spec's convention (used only for relational float checks),
and the table of public entry points through which a gate can be applied.

Conventions (spec/C06/C06_Defs.tla):
  * sites of a geometry are numbered 1..n in the class's own site order (MPS: 0..L-1, 2D: row major);
  * a state is the flat C-order vector over the site dimensions, an operator the flat C-order
    vector over (upper dims) o (lower dims)  (= the row-major matrix, rows = upper = ket side);
  * a gate is the matrix G (rows = output), its first tensor factor acts on sites[0], ...
"""

import itertools
import warnings

import numpy as np

LET = "abcdefghijklmnopqrstuvwxyzABCDEFGHIJKLMNOPQRSTUVWXYZ"

# --------------------------------------------------------------------------- geometry classes
# name -> (cls, site keys, edges between positions (0-based), default dims)
def chain_edges(L, cyclic=False):
    e = [(i, i + 1) for i in range(L - 1)]
    if cyclic and L > 2:
        e.append((0, L - 1))
    return e


def grid_sites(Lx, Ly):
    return [(i, j) for i in range(Lx) for j in range(Ly)]


def grid_edges(Lx, Ly):
    s = grid_sites(Lx, Ly)
    pos = {c: k for k, c in enumerate(s)}
    e = []
    for (i, j) in s:
        if i + 1 < Lx:
            e.append((pos[(i, j)], pos[(i + 1, j)]))
        if j + 1 < Ly:
            e.append((pos[(i, j)], pos[(i, j + 1)]))
    return sorted(e)


class Geom:
    """cls in {mps, mpsc, mpo, peps, pepo, gen}; kind in {vec, op}"""

    def __init__(self, name, cls, dims, Lx=None, Ly=None, edges=None):
        self.name = name
        self.cls = cls
        self.dims = list(dims)
        self.n = len(dims)
        self.kind = "op" if cls in ("mpo", "pepo") else "vec"
        self.Lx, self.Ly = Lx, Ly
        if cls in ("mps", "mpo"):
            self.sites = list(range(self.n))
            self.edges = chain_edges(self.n)
        elif cls == "mpsc":
            self.sites = list(range(self.n))
            self.edges = chain_edges(self.n, True)
        elif cls in ("peps", "pepo"):
            self.sites = grid_sites(Lx, Ly)
            self.edges = grid_edges(Lx, Ly)
        else:
            self.sites = list(range(self.n))
            self.edges = sorted(tuple(sorted(e)) for e in edges)

    def adjacent(self, a, b):
        return (min(a, b), max(a, b)) in self.edges

    @property
    def D(self):
        return int(np.prod(self.dims))

    def densedim(self):
        return self.D ** 2 if self.kind == "op" else self.D

    def as_json(self):
        return {"name": self.name, "cls": self.cls, "kind": self.kind, "dims": [int(d) for d in self.dims],
                "edges": [[a + 1, b + 1] for a, b in self.edges]}


def gint(nprng, shape, re=2, im=1, density=1.0, real=False):
    a = nprng.integers(-re, re + 1, size=tuple(shape)).astype(float)
    if not real and im:
        a = a + 1j * nprng.integers(-im, im + 1, size=tuple(shape))
    if density < 1.0:
        a = a * (nprng.random(size=tuple(shape)) < density)
    if not np.any(a):
        a.reshape(-1)[0] = 1.0
    return a


def build(geom, nprng, bond=2, dtype="complex128", re=2, im=1):
    """a quimb network of the geometry's class with small Gaussian-integer data"""
    import quimb.tensor as qtn

    real = np.dtype(dtype).kind != "c"
    g = geom
    nbr = {k: [] for k in range(g.n)}
    for a, b in g.edges:
        nbr[a].append(b)
        nbr[b].append(a)

    def arr(shape):
        return gint(nprng, shape, re, im, real=real).astype(dtype)

    if g.cls in ("mps", "mpsc"):
        cyc = g.cls == "mpsc"
        arrays = []
        for i, d in enumerate(g.dims):
            shp = []
            if cyc or i > 0:
                shp.append(bond)
            if cyc or i < g.n - 1:
                shp.append(bond)
            arrays.append(arr(shp + [d]))
        return qtn.MatrixProductState(arrays, shape="lrp")
    if g.cls == "mpo":
        arrays = []
        for i, d in enumerate(g.dims):
            shp = []
            if i > 0:
                shp.append(bond)
            if i < g.n - 1:
                shp.append(bond)
            arrays.append(arr(shp + [d, d]))
        return qtn.MatrixProductOperator(arrays, shape="lrud")
    if g.cls in ("peps", "pepo"):
        rows = []
        for i in range(g.Lx):
            row = []
            for j in range(g.Ly):
                d = g.dims[i * g.Ly + j]
                shp = []
                if i < g.Lx - 1:
                    shp.append(bond)   # u
                if j < g.Ly - 1:
                    shp.append(bond)   # r
                if i > 0:
                    shp.append(bond)   # d
                if j > 0:
                    shp.append(bond)   # l
                row.append(arr(shp + ([d] if g.cls == "peps" else [d, d])))
            rows.append(row)
        if g.cls == "peps":
            return qtn.PEPS(rows, shape="urdlp")
        return qtn.PEPO(rows, shape="urdlbk")
    # generic graph state, built by hand
    ts = []
    for k in range(g.n):
        inds = ["e%d_%d" % (min(k, m), max(k, m)) for m in nbr[k]] + ["k%d" % k]
        shp = [bond] * len(nbr[k]) + [g.dims[k]]
        ts.append(qtn.Tensor(arr(shp), inds=inds, tags=["I%d" % k]))
    return qtn.TensorNetwork(ts).view_as(qtn.TensorNetworkGenVector, site_ind_id="k{}", site_tag_id="I{}",
                                         sites=list(range(g.n)))


def build_graded(geom, nprng, K, dtype="complex128"):
    """An open chain (MPS or MPO) with a *graded* Schmidt spectrum and exact integer data:
           K * (product state A)  +  (entangled bond-2 state B),      K ~ 1e6,
    so that every bond carries one Schmidt coefficient ~ K|A| and small but non-zero ones ~ |B| (squared relative
    weight ~ 1e-12: below any default truncation threshold, far above rounding).  A's local vectors have entries in
    {0, +-1, +-i}; for operators A's local matrices are rank one |u><w|.  Returns (network, locals) where
    locals[i] is the local vector a_i (states) or the pair (u_i, w_i) (operators)."""
    import quimb.tensor as qtn

    real = np.dtype(dtype).kind != "c"
    n = geom.n
    units = [1, -1] if real else [1, -1, 1j, -1j]

    def unitvec(d):
        v = np.array([units[nprng.integers(0, len(units))] if nprng.random() < 0.75 else 0 for _ in range(d)], dtype=complex)
        if not np.any(v):
            v[nprng.integers(0, d)] = 1
        return v

    op = geom.kind == "op"
    locs, arrays = [], []
    ksite = int(nprng.integers(0, n))
    for i, d in enumerate(geom.dims):
        if op:
            u, w = unitvec(d), unitvec(d)
            locs.append((u, w))
            a = np.outer(u, w.conj())
            pshape = [d, d]
        else:
            a = unitvec(d)
            locs.append(a)
            pshape = [d]
        if i == ksite:
            a = a * K
        lb = 1 if i == 0 else 3
        rb = 1 if i == n - 1 else 3
        arr = np.zeros([lb, rb] + pshape, dtype=complex)
        arr[0, 0] = a
        bl = 1 if i == 0 else 2
        br = 1 if i == n - 1 else 2
        B = gint(nprng, [bl, br] + pshape, 1, 1, real=real)
        arr[lb - bl:, rb - br:] = B if (i not in (0, n - 1) or n == 1) else 0
        if i == 0 and n > 1:
            arr = np.zeros([1, 3] + pshape, dtype=complex)
            arr[0, 0] = a
            arr[0, 1:] = B[0]
        elif i == n - 1 and n > 1:
            arr = np.zeros([3, 1] + pshape, dtype=complex)
            arr[0, 0] = a
            arr[1:, 0] = B[:, 0]
        if i == 0:
            arr = arr[0]
        elif i == n - 1:
            arr = arr[:, 0]
        arrays.append(arr.real.astype(dtype) if real else arr.astype(dtype))
    if op:
        return qtn.MatrixProductOperator(arrays, shape="lrud"), locs
    return qtn.MatrixProductState(arrays, shape="lrp"), locs


def kill_gate(geom, locs, pos):
    """n.1 - |a><a| on the positions `pos` (a = the dominant branch's local vector there, n = <a|a>): a Gaussian
    integer projector (times n) that removes the dominant product branch completely"""
    a = np.ones(1, dtype=complex)
    for p in pos:
        v = locs[p][0] if geom.kind == "op" else locs[p]
        a = np.kron(a, v)
    nn = int(round(np.vdot(a, a).real))
    return nn * np.eye(len(a), dtype=complex) - np.outer(a, a.conj())


def swap_matrix(d):
    G = np.zeros((d * d, d * d), dtype=complex)
    for x in range(d):
        for y in range(d):
            G[x * d + y, y * d + x] = 1
    return G


def site_key(geom, p):
    """position (0-based) -> quimb's site key"""
    return geom.sites[p]


def out_inds(geom, tn):
    if geom.kind == "vec":
        return [tn.site_ind(s) for s in geom.sites]
    return [tn.upper_ind(s) for s in geom.sites] + [tn.lower_ind(s) for s in geom.sites]


def np_dense(tn, out, gauges=None):
    """plain numpy value of the network over the labels `out` (flat C order); bond gauges (simple
    update vectors) are multiplied onto their bond."""
    ops = [(tuple(t.inds), np.asarray(t.data)) for t in tn.tensors]
    if gauges:
        for ix, s in gauges.items():
            if ix in tn.ind_map:
                ops.append(((ix,), np.asarray(s)))
    labels = sorted({i for inds, _ in ops for i in inds} | set(out))
    if len(labels) > len(LET):
        # more labels than einsum has letters (many lazy gates): contract pairwise, relabelling locally
        val = _pairwise(ops, list(out))
        return np.asarray(val).reshape(-1) * 10.0 ** float(getattr(tn, "exponent", 0.0))
    sym = {x: LET[k] for k, x in enumerate(labels)}
    eq = ",".join("".join(sym[i] for i in inds) for inds, _ in ops) + "->" + "".join(sym[i] for i in out)
    val = np.einsum(eq, *[a.astype(complex) for _, a in ops], optimize="greedy")
    return np.asarray(val).reshape(-1) * 10.0 ** float(getattr(tn, "exponent", 0.0))


def _pairwise(ops, out):
    """plain numpy contraction of [(labels, array)] to the labels `out`, two operands at a time (a label that is
    still carried by a third operand or is an output label is kept)"""
    ops = [(list(inds), np.asarray(a).astype(complex)) for inds, a in ops]
    missing = [x for x in out if not any(x in inds for inds, _ in ops)]
    if missing:
        raise ValueError("output labels %r are not in the network" % (missing,))
    while len(ops) > 1:
        best = None
        for i in range(len(ops)):
            for j in range(i + 1, len(ops)):
                shared = set(ops[i][0]) & set(ops[j][0])
                if not shared:
                    continue
                others = set(out)
                for k, (inds, _) in enumerate(ops):
                    if k not in (i, j):
                        others |= set(inds)
                keep = [x for x in dict.fromkeys(ops[i][0] + ops[j][0]) if x in others]
                size = 1
                dims = dict(zip(ops[i][0], ops[i][1].shape))
                dims.update(zip(ops[j][0], ops[j][1].shape))
                for x in keep:
                    size *= dims[x]
                if best is None or size < best[0]:
                    best = (size, i, j, keep)
        if best is None:            # disconnected pieces: outer product of the first two
            i, j = 0, 1
            keep = ops[0][0] + ops[1][0]
        else:
            _, i, j, keep = best
        loc = {x: LET[k] for k, x in enumerate(dict.fromkeys(ops[i][0] + ops[j][0]))}
        eq = "".join(loc[x] for x in ops[i][0]) + "," + "".join(loc[x] for x in ops[j][0]) + "->" + "".join(loc[x] for x in keep)
        new = (keep, np.einsum(eq, ops[i][1], ops[j][1]))
        ops = [o for k, o in enumerate(ops) if k not in (i, j)] + [new]
    inds, arr = ops[0]
    loc = {x: LET[k] for k, x in enumerate(inds)}
    return np.einsum("".join(loc[x] for x in inds) + "->" + "".join(loc[x] for x in out), arr)


# --------------------------------------------------------------------------- numpy reference (relational checks only)
def variant(G, op):
    G = np.asarray(G)
    return {"N": G, "T": G.T, "C": G.conj(), "H": G.conj().T, "B": G.conj().T}[op]


def eff_op(op):
    """spec's EffOp: the operator documented for a flag combination ("B" = dagger and transpose: transpose is implied
    by dagger, so the adjoint)"""
    return "H" if op == "B" else op



def embed_apply(G, dims, sites, v):
    """(G embedded on the 0-based positions `sites` of a system with sizes `dims`) . v"""
    dims = list(dims)
    n = len(dims)
    k = len(sites)
    gd = [dims[s] for s in sites]
    Gt = np.asarray(G, dtype=complex).reshape(gd + gd)
    x = np.asarray(v, dtype=complex).reshape(dims)
    y = np.tensordot(Gt, x, axes=(list(range(k, 2 * k)), list(sites)))
    rest = [a for a in range(n) if a not in sites]
    cur = list(sites) + rest
    return y.transpose([cur.index(a) for a in range(n)]).reshape(-1)


def ref_apply(G, dims, sites, v, op="N", which="site"):
    """the spec's ApplyRef in numpy"""
    n = len(dims)
    Gv = variant(G, op)
    if which == "site":
        return embed_apply(Gv, dims, sites, v)
    dd = list(dims) + list(dims)
    if which == "upper":
        return embed_apply(Gv, dd, sites, v)
    if which == "lower":       # X -> X . E^T : E acts on the column (lower) index
        return embed_apply(Gv, dd, [n + s for s in sites], v)
    if which == "sandwich":    # X -> E X E^dagger
        return embed_apply(Gv.conj(), dd, [n + s for s in sites], embed_apply(Gv, dd, sites, v))
    raise ValueError(which)


# --------------------------------------------------------------------------- observations
def site_tags_present(geom, tn):
    return sorted(str(tn.site_tag(s)) for s in geom.sites if tn.site_tag(s) in tn.tag_map)


def structure_kept(geom, tn):
    """one tensor per site, carrying the site's tag and its physical index/indices"""
    if tn.num_tensors != geom.n:
        return False
    for s in geom.sites:
        tag = tn.site_tag(s)
        tids = tn.tag_map.get(tag, ())
        if len(tids) != 1:
            return False
        (tid,) = tids
        t = tn.tensor_map[tid]
        inds = [tn.site_ind(s)] if geom.kind == "vec" else [tn.upper_ind(s), tn.lower_ind(s)]
        if any(ix not in t.inds for ix in inds):
            return False
    return True


def quiet():
    warnings.filterwarnings("ignore")


# --------------------------------------------------------------------------- entry points
BASIC = (False, True, "split", "reduce-split")
SPLITG = ("split-gate", "swap-split-gate", "auto-split-gate")
MPS_ONLY = ("swap+split", "nonlocal", "auto-mps")
ALL_MODES = BASIC + SPLITG + MPS_ONLY
LAZY = (False,) + SPLITG


def mode_name(m):
    return {False: "False", True: "True"}.get(m, m)


def mode_value(s):
    return {"False": False, "True": True}.get(s, s)


def op_kwargs(op):
    return {"N": {}, "T": {"transpose": True}, "H": {"dagger": True}, "B": {"dagger": True, "transpose": True}}[op]


def gate_input(G, gd, given):
    G = np.asarray(G)
    return G.reshape(list(gd) + list(gd)) if given == "tensor" else G


def make_op_tn(geom, tn, G, pos, given="matrix", full=False):
    """the operator G on positions `pos` as an operator *network* with the target's naming:
    1D -> MatrixProductOperator.from_dense (a sub-MPO), otherwise a one-tensor operator network.
    full=True adds an identity tensor on every other site (an operator over all sites)."""
    import quimb.tensor as qtn

    gd = [geom.dims[p] for p in pos]
    keys = [site_key(geom, p) for p in pos]
    two_d = geom.cls in ("peps", "pepo")
    fmt = "{},{}" if two_d else "{}"

    def lab(prefix, k):
        return prefix + fmt.format(*(k if isinstance(k, tuple) else (k,)))

    if geom.cls in ("mps", "mpsc", "mpo"):
        A = qtn.MatrixProductOperator.from_dense(gate_input(G, gd, given), dims=gd, sites=keys, L=geom.n, cutoff=0.0)
    else:
        t = qtn.Tensor(np.asarray(G).reshape(gd + gd), inds=[lab("k", k) for k in keys] + [lab("b", k) for k in keys],
                       tags=[tn.site_tag(k) for k in keys])
        kw = dict(upper_ind_id="k" + fmt, lower_ind_id="b" + fmt, site_tag_id=tn.site_tag_id)
        if two_d:
            from quimb.tensor.tn2d.core import TensorNetwork2DOperator
            A = qtn.TensorNetwork([t]).view_as(TensorNetwork2DOperator, Lx=geom.Lx, Ly=geom.Ly,
                                               x_tag_id="X{}", y_tag_id="Y{}", **kw)
        else:
            A = qtn.TensorNetwork([t]).view_as(qtn.TensorNetworkGenOperator, sites=list(geom.sites), **kw)
    if full:
        for p in range(geom.n):
            if p not in pos:
                k = site_key(geom, p)
                A |= qtn.Tensor(np.eye(geom.dims[p]).astype(np.asarray(G).dtype), inds=[lab("k", k), lab("b", k)],
                                tags=[tn.site_tag(k)])
    return A


def phys_inds(geom, tn, pos, which):
    keys = [site_key(geom, p) for p in pos]
    if which == "site":
        return [tn.site_ind(k) for k in keys]
    if which == "upper":
        return [tn.upper_ind(k) for k in keys]
    if which == "lower":
        return [tn.lower_ind(k) for k in keys]
    raise ValueError(which)


def apply_entry(tn, geom, a, gauges=None):
    """Apply the gate described by `a` through the public entry point a['entry'].
    Returns the resulting network (a new object unless a['inplace']).  Raises whatever quimb raises.

    a: entry, mode (as in the specification's table: the contract mode, the compression method of the MPO routes,
       or a spelling variant), pos (0-based positions), G (matrix), given ('matrix'|'tensor'), op ('N'|'T'|'H'),
       which, ptags, inplace, cutoff (None = library default) and a few spelling switches.
    """
    import quimb.tensor as qtn

    entry, mode, pos, op, which = a["entry"], a.get("mode"), list(a["pos"]), a["op"], a["which"]
    gd = [geom.dims[p] for p in pos]
    G = np.asarray(a["G"])
    Gin = gate_input(G, gd, a.get("given", "matrix"))
    keys = [site_key(geom, p) for p in pos]
    where = keys[0] if (len(keys) == 1 and a.get("bare_site")) else tuple(keys)
    inplace = bool(a.get("inplace"))
    copts = {} if a.get("cutoff") is None else {"cutoff": a["cutoff"]}
    okw = op_kwargs(op)

    if entry == "gate":
        kw = dict(contract=mode_value(mode), **okw, **copts)
        if "ptags" in a:
            kw["propagate_tags"] = a["ptags"]
        if a.get("tags"):
            kw["tags"] = a["tags"]
        if geom.kind == "op":
            # which=None means sandwich for operators
            if not (which == "sandwich" and a.get("which_default")):
                kw["which"] = "both" if (which == "sandwich" and a.get("which_both")) else which
        elif a.get("which_explicit"):
            kw["which"] = "site"
        fn = tn.gate_ if inplace else tn.gate
        out = fn(Gin, where, **kw)
        return tn if inplace else out

    if entry in ("gate_upper", "gate_lower", "gate_sandwich"):
        fn = getattr(tn, entry + ("_" if inplace else ""))
        out = fn(Gin, where, contract=mode_value(mode), **okw, **copts)
        return tn if inplace else out

    if entry == "gate_inds":
        if which == "sandwich":
            fn = tn.gate_sandwich_inds_ if inplace else tn.gate_sandwich_inds
            out = fn(Gin, phys_inds(geom, tn, pos, "upper"), phys_inds(geom, tn, pos, "lower"),
                     contract=mode_value(mode), **okw, **copts)
        else:
            fn = tn.gate_inds_ if inplace else tn.gate_inds
            out = fn(Gin, phys_inds(geom, tn, pos, which), contract=mode_value(mode), **okw, **copts)
        return tn if inplace else out

    if entry == "gate_inds_with_tn":
        # the gate as a tensor (or as a two-tensor / one-tensor network) with its own labels
        outs = ["go%d" % k for k in range(len(pos))]
        ins = ["gi%d" % k for k in range(len(pos))]
        Gv = variant(G, "C") if op == "H" else G
        tg = qtn.Tensor(Gv.reshape(gd + gd), inds=outs + ins, tags=["GATE"])
        if op in ("T", "H"):
            outs, ins = ins, outs
        gate = tg
        if a.get("variant") == "split" and len(pos) == 2:
            gate = tg.split(["go0", "gi0"], cutoff=0.0)
        elif a.get("variant") == "network":
            gate = qtn.TensorNetwork([tg])
        fn = tn.gate_inds_with_tn_ if inplace else tn.gate_inds_with_tn
        out = fn(phys_inds(geom, tn, pos, which), gate, ins, outs)
        return tn if inplace else out

    if entry == "Tensor.gate":
        (ix,) = phys_inds(geom, tn, pos, which)
        tn2 = tn if inplace else tn.copy()
        (t,) = tn2._inds_get(ix)
        Gv = variant(G, "C") if op == "H" else G
        kw = {}
        if op in ("T", "H"):
            kw = {"transposed": True} if a.get("variant") == "transposed-alias" else {"transpose": True}
        if a.get("variant") == "no-preserve":
            kw["preserve_inds"] = False
        if a.get("variant") == "returned":
            tnew = t.gate(Gv, ix, **kw)
            t.modify(data=tnew.data, inds=tnew.inds)
        else:
            t.gate_(Gv, ix, **kw)
        return tn2

    if entry == "gate_split":
        fn = tn.gate_split_ if inplace else tn.gate_split
        out = fn(Gin, where, **okw, **copts)
        return tn if inplace else out

    if entry == "gate_with_auto_swap":
        fn = tn.gate_with_auto_swap_ if inplace else tn.gate_with_auto_swap
        kw = dict(okw)
        if a.get("variant") == "info":
            kw["info"] = {"cur_orthog": "calc"}
        out = fn(Gin, where, **kw, **copts)
        return tn if inplace else out

    if entry == "swap_sites":
        # exchanging two sites of equal size = the SWAP gate on them (G is the SWAP matrix; the driver sees to that)
        i, j = keys
        if a.get("variant") == "swap_site_to" and abs(i - j) == 1:
            fn = tn.swap_site_to_ if inplace else tn.swap_site_to
        else:
            fn = tn.swap_sites_with_compress_ if inplace else tn.swap_sites_with_compress
        out = fn(i, j, **copts)
        return tn if inplace else out

    if entry == "gate_sandwich_with_auto_swap":
        fn = tn.gate_sandwich_with_auto_swap_ if inplace else tn.gate_sandwich_with_auto_swap
        kw = {"dagger": True} if op == "H" else {}
        if not (mode == "split" and a.get("mode_default")):
            kw["contract"] = mode
        out = fn(Gin, where, **kw, **copts)
        return tn if inplace else out

    if entry in ("gate_nonlocal", "gate_with_submpo", "gate_with_mpo"):
        kw = {"transpose": True} if op == "T" else {}
        if not (mode == "direct" and a.get("mode_default")):
            kw["method"] = mode
        if entry == "gate_nonlocal":
            fn = tn.gate_nonlocal_ if inplace else tn.gate_nonlocal
            out = fn(Gin, where, **kw, **copts)
        elif entry == "gate_with_mpo":
            if len(set(geom.dims)) == 1 and a.get("fill"):
                A = make_op_tn(geom, tn, G, pos, a.get("given", "matrix")).fill_empty_sites(mode=a["fill"])
            else:
                A = make_op_tn(geom, tn, G, pos, a.get("given", "matrix"), full=True)
            fn = tn.gate_with_mpo_ if inplace else tn.gate_with_mpo
            out = fn(A, **kw, **copts)
        else:
            A = make_op_tn(geom, tn, G, pos, a.get("given", "matrix"))
            fn = tn.gate_with_submpo_ if inplace else tn.gate_with_submpo
            if not a.get("where_inferred"):
                kw["where"] = where
            out = fn(A, **kw, **copts)
        return tn if inplace else out

    if entry == "op_lazy":
        # operator targets: the gating operator must cover every site ("matching structure")
        A = make_op_tn(geom, tn, G, pos, a.get("given", "matrix"), full=(geom.kind == "op" or bool(a.get("full"))))
        if which == "site":
            fn = tn.gate_with_op_lazy_ if inplace else tn.gate_with_op_lazy
            out = fn(A, transpose=(op == "T"))
        elif which == "upper":
            fn = tn.gate_upper_with_op_lazy_ if inplace else tn.gate_upper_with_op_lazy
            out = fn(A, transpose=(op == "T"))
        elif which == "lower":
            # documented as  B -> B A  (B A^T if transpose): in the spec's terms  X -> X E^T  with E = A^T (A)
            fn = tn.gate_lower_with_op_lazy_ if inplace else tn.gate_lower_with_op_lazy
            out = fn(A, transpose=(op == "N"))
        else:
            fn = tn.gate_sandwich_with_op_lazy_ if inplace else tn.gate_sandwich_with_op_lazy
            out = fn(A, dagger=(op == "H"))
        return tn if inplace else out

    if entry == "gate_simple":
        kw = dict(okw)
        kw["renorm"] = (mode == "renorm")
        if a.get("renorm_default") and mode == "renorm":
            del kw["renorm"]
        if a.get("smudge") is not None:
            kw["smudge"] = a["smudge"]
        if a.get("cutoff") is not None:
            kw["cutoff"] = a["cutoff"]
        if a.get("simple_contract"):
            kw["contract"] = a["simple_contract"]
        tn.gate_simple_(Gin, where, gauges, **kw)     # always in place (the plain spelling warns)
        return tn

    raise RuntimeError("unknown entry %r" % (entry,))


# which (op) values an entry point supports natively
ENTRY_OPS = {
    # "B" = dagger=True and transpose=True together (every entry point that takes both flags)
    "gate": "NTHB", "gate_upper": "NTHB", "gate_lower": "NTHB", "gate_sandwich": "NTHB", "gate_inds": "NTHB",
    "gate_inds_with_tn": "NTH", "Tensor.gate": "NTH", "gate_split": "NTHB", "gate_with_auto_swap": "N",
    "gate_sandwich_with_auto_swap": "NH", "gate_nonlocal": "NT", "gate_with_submpo": "NT", "gate_with_mpo": "NT",
    "op_lazy": "NT", "gate_simple": "NTHB", "swap_sites": "N",
}
