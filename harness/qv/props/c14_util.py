"""C14 helpers: acyclic networks in exact domains, numpy reference messages, observation of the
belief propagation objects of quimb (public attributes only), snapping to integers / rationals.

Nothing here decides anything: every number logged is judged by spec/C14/C14_Trace.tla.
"""

import itertools
import math
import warnings
from fractions import Fraction

import numpy as np

from ..snap import qdiff, snap_gint

BIG = 2 ** 30
RATMAX = 1 << 20          # totals of exact-domain networks stay below this (rational snapping)
EXACT_TOL = 1e-9          # |m/|m| - phase * M/|M|| below this: the message is the exact one
END_TOL = 1e-6            # the same after convergence of a damped run


# ----------------------------------------------------------------------------- networks

class Net:
    """A network given by plain data: tensors = [(inds, ndarray)], name[i] = node name of tensor i
    (dense / hyper: "t<i>", lazy: the site), gk in {"dense", "lazy", "hyper"}."""

    def __init__(self, tensors, name, gk, kind, phys=()):
        self.tensors = [(tuple(ix), np.asarray(a)) for ix, a in tensors]
        self.name = list(name)
        self.gk = gk
        self.kind = kind            # pos | signed | cplx | float
        self.dims = {}
        for ix, a in self.tensors:
            for x, d in zip(ix, a.shape):
                self.dims[x] = int(d)
        self.phys = list(phys)      # outer labels (2-norm flavours), fixed order

    @property
    def exact(self):
        return self.kind != "float"

    def holders(self, x):
        return [i for i, (ix, _) in enumerate(self.tensors) if x in ix]

    def labels(self):
        out = []
        for ix, _ in self.tensors:
            for x in ix:
                if x not in out:
                    out.append(x)
        return out

    def outer(self):
        return [x for x in self.labels() if len(self.holders(x)) == 1]

    def to_quimb(self, order=None):
        import quimb.tensor as qtn

        idx = list(range(len(self.tensors))) if order is None else list(order)
        dt = complex if any(np.iscomplexobj(a) for _, a in self.tensors) else float
        ts = []
        for i in idx:
            ix, a = self.tensors[i]
            tags = ["P%d" % (i + 1)]
            if self.gk != "hyper":
                tags.append(self.name[i])
            ts.append(qtn.Tensor(np.array(a, dtype=dt), inds=ix, tags=tags))
        return qtn.TensorNetwork(ts)

    def to_json(self):
        net = []
        for ix, a in self.tensors:
            flat = np.asarray(a).reshape(-1)
            net.append({"inds": list(ix), "shape": [int(d) for d in a.shape],
                        "data": [[int(round(complex(v).real)), int(round(complex(v).imag))] for v in flat]})
        return net

    # graph of the flavour ------------------------------------------------------------
    def graph(self):
        """nodes, edges (list of pairs), inodes (label nodes of a hyper graph)"""
        if self.gk == "hyper":
            nodes = list(self.name) + self.labels()
            edges = [[self.name[i], x] for i, (ix, _) in enumerate(self.tensors) for x in ix]
            return nodes, edges, self.labels()
        nodes = []
        for s in self.name:
            if s not in nodes:
                nodes.append(s)
        edges = []
        for x in self.labels():
            ss = sorted({self.name[i] for i in self.holders(x)})
            if len(ss) == 2 and ss not in edges:
                edges.append(ss)
        return nodes, edges, []


def pos_of_tensor(t):
    for g in t.tags:
        if g[0] == "P" and g[1:].isdigit():
            return int(g[1:]) - 1
    raise KeyError("tensor without position tag")


def random_tree_edges(rng, n, shape="random", maxdeg=4):
    """a tree on 0..n-1 with bounded degree (a tensor has one leg per neighbour)"""
    if shape == "chain":
        return [(i, i + 1) for i in range(n - 1)]
    if shape == "binary":
        return [((i - 1) // 2, i) for i in range(1, n)]
    if shape == "star":      # a hub of maxdeg legs, the rest hangs off the legs as chains
        return [(0 if i <= maxdeg else i - maxdeg, i) for i in range(1, n)]
    deg = [0] * n
    edges = []
    for i in range(1, n):
        cands = [j for j in range(i) if deg[j] < maxdeg]
        j = cands[int(rng.integers(0, len(cands)))]
        deg[i] += 1
        deg[j] += 1
        edges.append((j, i))
    return edges


def _data(rng, shape, kind):
    shape = tuple(shape)
    if kind == "pos":
        return rng.integers(1, 4, size=shape).astype(float)
    if kind == "signed":
        a = rng.integers(-2, 3, size=shape).astype(float)
        a[a == 0] = 1.0
        return a
    if kind == "cplx":
        return rng.integers(1, 3, size=shape) + 1j * rng.integers(-1, 2, size=shape)
    if kind == "float":
        return rng.uniform(0.3, 1.7, size=shape)
    if kind == "floatc":
        return rng.normal(size=shape) + 1j * rng.normal(size=shape)
    raise ValueError(kind)


def _scalar_data(rng, kind):
    """a rank-0 tensor of the kind (never zero)"""
    return np.asarray(_data(rng, (1,), kind)).reshape(())


def gen_dense(rng, n, kind, shape="random", dmax=3, phys=False, forest=False, scalar=False, isolated=0):
    """one tensor per node of a random tree (forest: the edge in the middle is dropped)"""
    edges = random_tree_edges(rng, n, shape)
    if forest and len(edges) >= 2:
        edges.pop(len(edges) // 2)
    inds = {i: [] for i in range(n)}
    dims = {}
    for k, (a, b) in enumerate(edges):
        x = "b%d" % k
        dims[x] = int(rng.integers(2, dmax + 1))
        inds[a].append(x)
        inds[b].append(x)
    ph = []
    if phys:
        for i in range(n):
            if rng.random() < 0.85 or not inds[i]:
                x = "k%d" % i
                dims[x] = 2
                inds[i].append(x)
                ph.append(x)
    ts = []
    for i in range(n):
        ix = list(inds[i])
        rng.shuffle(ix)
        ts.append((ix, _data(rng, [dims[x] for x in ix], kind)))
    name = ["t%d" % (i + 1) for i in range(n)]
    # single-tensor components of a forest: a tensor bonded to nothing (2-norm: it only carries a
    # physical label; 1-norm: the dense flavours take no dangling labels, so it is a rank-0 tensor)
    for _ in range(isolated):
        if phys:
            x = "k%d" % len(ts)
            dims[x] = 2
            ph.append(x)
            ts.append(([x], _data(rng, [2], kind)))
        else:
            ts.append(((), _scalar_data(rng, kind)))
        name.append("t%d" % len(ts))
    if scalar:
        ts.append(((), np.array(float(rng.integers(2, 4)))))
        name.append("t%d" % len(ts))
    return Net(ts, name, "dense", "float" if kind in ("float", "floatc") else kind, ph)


def gen_hyper(rng, nt, kind, dmax=2, uniform_dim=True, scalar=False, bonds_only=False, isolated=0):
    """a random factor-graph tree: tensors and labels alternate; labels of degree 1 (dangling),
    2 (bonds) and >= 3 (hyper).  bonds_only: every label on exactly two tensors (the hyper flavours
    compute the messages of any other label by dividing a product, which needs non-vanishing
    entries: signed / complex data is driven on plain bonds only)."""
    if bonds_only:
        net = gen_dense(rng, nt, kind, dmax=2 if uniform_dim else dmax, scalar=scalar, isolated=isolated)
        net.gk = "hyper"
        return net
    d0 = int(rng.integers(2, dmax + 1))
    tens = [[]]          # labels of each tensor
    labels = []          # [holders]
    dims = {}

    def new_label(holder):
        x = "a%d" % len(labels)
        labels.append([holder])
        dims[x] = d0 if uniform_dim else int(rng.integers(2, dmax + 1))
        tens[holder].append(x)
        return x

    new_label(0)
    while len(tens) < nt:
        # attach a new tensor to an existing label, or open a new label on an existing tensor first
        if rng.random() < 0.45:
            h = int(rng.integers(0, len(tens)))
            if len(tens[h]) < 3:
                new_label(h)
        k = int(rng.integers(0, len(labels)))
        if len(labels[k]) >= 3:
            continue
        tens.append(["a%d" % k])
        labels[k].append(len(tens) - 1)
    # a few dangling labels
    for h in range(len(tens)):
        if len(tens[h]) < 3 and rng.random() < 0.3:
            new_label(h)
    ts = []
    for ix in tens:
        ix = list(ix)
        rng.shuffle(ix)
        ts.append((ix, _data(rng, [dims[x] for x in ix], kind)))
    # single-tensor components: a tensor whose labels nobody else holds
    for _ in range(isolated):
        ix = ["a%d" % (len(dims) + j) for j in range(int(rng.integers(1, 3)))]
        for x in ix:
            dims[x] = d0 if uniform_dim else int(rng.integers(2, dmax + 1))
        ts.append((ix, _data(rng, [dims[x] for x in ix], kind)))
    name = ["t%d" % (i + 1) for i in range(len(ts))]
    if scalar:
        ts.append(((), np.array(float(rng.integers(2, 4)))))
        name.append("t%d" % len(ts))
    return Net(ts, name, "hyper", "float" if kind in ("float", "floatc") else kind)


def gen_lazy(rng, nsites, kind, phys=False, shape="random", isolated=0):
    """sites of one or two tensors, one or two bonds between neighbouring sites"""
    edges = random_tree_edges(rng, nsites, shape, maxdeg=3)
    parts = {}   # site -> list of label lists
    dims = {}
    ph = []
    for s in range(nsites):
        parts[s] = [[] for _ in range(int(rng.integers(1, 3)))]
        if len(parts[s]) == 2:
            x = "i%d" % s
            dims[x] = 2
            parts[s][0].append(x)
            parts[s][1].append(x)
    nb = 0
    for a, b in edges:
        for _ in range(1 if rng.random() < 0.7 else 2):
            x = "b%d" % nb
            nb += 1
            dims[x] = 2
            parts[a][int(rng.integers(0, len(parts[a])))].append(x)
            parts[b][int(rng.integers(0, len(parts[b])))].append(x)
    if phys:
        for s in range(nsites):
            x = "k%d" % s
            dims[x] = 2
            parts[s][0].append(x)
            ph.append(x)
    ts, name = [], []
    for s in range(nsites):
        for ix in parts[s]:
            ix = list(ix)
            rng.shuffle(ix)
            ts.append((ix, _data(rng, [dims[x] for x in ix], kind)))
            name.append("S%d" % s)
    # single-site components: a site bonded to no other site (one tensor, or two with an inner bond)
    for j in range(isolated):
        s2 = nsites + j
        two = rng.random() < 0.5
        if phys:
            x = "k%d" % s2
            dims[x] = 2
            ph.append(x)
            parts2 = [[x, "i%d" % s2], ["i%d" % s2]] if two else [[x]]
        else:
            parts2 = [["i%d" % s2], ["i%d" % s2]] if two else [[]]
        dims["i%d" % s2] = 2
        for ix in parts2:
            ts.append((ix, _data(rng, [dims[x] for x in ix], kind) if ix else _scalar_data(rng, kind)))
            name.append("S%d" % s2)
    return Net(ts, name, "lazy", "float" if kind in ("float", "floatc") else kind, ph)


# ----------------------------------------------------------------------------- numpy reference

def einsum_labels(ops, out):
    """ops = [(labels, array)], plain numpy einsum over string labels"""
    labs = []
    for ix, _ in ops:
        for x in ix:
            if x not in labs:
                labs.append(x)
    for x in out:
        if x not in labs:
            labs.append(x)
    if len(labs) > 50:
        raise ValueError("too many labels for one einsum")
    m = {x: k for k, x in enumerate(labs)}
    args = []
    for ix, a in ops:
        args += [a, [m[x] for x in ix]]
    args.append([m[x] for x in out])
    return np.einsum(*args, optimize="greedy" if len(ops) > 3 else False)


class Ref:
    """exact messages / value / marginals of an acyclic network, by one pass of the textbook
    recursion in numpy (independent of quimb).  norm = 1 or 2."""

    def __init__(self, net, norm=1):
        self.net = net
        self.norm = norm
        self.nodes, self.edges, self.inodes = net.graph()
        self.nbr = {a: [] for a in self.nodes}
        for a, b in self.edges:
            self.nbr[a].append(b)
            self.nbr[b].append(a)
        self.memo = {}

    # which tensors live on a node
    def tensors_of(self, a):
        return [i for i, s in enumerate(self.net.name) if s == a]

    def bonds(self, a, b):
        """labels carried by the message a -> b"""
        if self.net.gk == "hyper":
            return [a if a in self.inodes else b]
        ta, tb = self.tensors_of(a), self.tensors_of(b)
        la = [x for i in ta for x in self.net.tensors[i][0]]
        lb = {x for i in tb for x in self.net.tensors[i][0]}
        out = []
        for x in la:
            if x in lb and x not in out:
                out.append(x)
        return out

    def _bra(self, x):
        return x + "*"

    def node_ops(self, a, exclude=None):
        """tensors of node a (and their conjugates for norm 2, bra copies of every non-outer label)
        plus the exact messages from all neighbours but `exclude`"""
        ops = []
        outer = set(self.net.outer())
        for i in self.tensors_of(a):
            ix, arr = self.net.tensors[i]
            ops.append((list(ix), arr))
            if self.norm == 2:
                ops.append(([x if x in outer else self._bra(x) for x in ix], np.conj(arr)))
        for c in self.nbr[a]:
            if c != exclude:
                ops.append(self.message_op(c, a))
        return ops

    def message_op(self, a, b):
        labs = self.bonds(a, b)
        if self.norm == 2:
            labs = [self._bra(x) for x in labs] + labs
        return (labs, self.message(a, b))

    def message(self, a, b):
        """exact message a -> b; axes: bonds(a, b) (norm 2: bra copies first, then kets)"""
        key = (a, b)
        if key in self.memo:
            return self.memo[key]
        labs = self.bonds(a, b)
        if self.net.gk == "hyper" and a in self.inodes:
            m = np.ones(self.net.dims[a], dtype=complex)
            for c in self.nbr[a]:
                if c != b:
                    m = m * self.message(c, a)
        else:
            out = ([self._bra(x) for x in labs] + labs) if self.norm == 2 else labs
            m = einsum_labels(self.node_ops(a, exclude=b), out)
        self.memo[key] = m
        return m

    def all_messages(self):
        return {(a, b): self.message(a, b) for a, b in itertools.chain(self.edges, [e[::-1] for e in self.edges])}

    def components(self):
        seen, comps = set(), []
        for a in self.nodes:
            if a in seen:
                continue
            comp, todo = [], [a]
            seen.add(a)
            while todo:
                u = todo.pop()
                comp.append(u)
                for v in self.nbr[u]:
                    if v not in seen:
                        seen.add(v)
                        todo.append(v)
            comps.append(comp)
        return comps

    def value(self):
        """Z (norm 1) or <psi|psi> (norm 2): product over components of one local contraction"""
        z = 1.0 + 0j
        for comp in self.components():
            roots = [a for a in comp if a not in self.inodes]
            if not roots:       # cannot happen: a label always sits on a tensor
                continue
            z *= complex(einsum_labels(self.node_ops(roots[0]), []))
        return z

    def index_marginal(self, x):
        """norm 1: over label x (hyper / dense graphs); norm 2: probabilities of outer label x"""
        if self.norm == 1:
            if self.net.gk == "hyper":
                m = np.ones(self.net.dims[x], dtype=complex)
                for c in self.nbr[x]:
                    m = m * self.message(c, x)
            else:
                i = self.net.holders(x)[0]
                m = einsum_labels(self.node_ops(self.net.name[i]), [x])
            return m / m.sum()
        i = self.net.holders(x)[0]
        a = self.net.name[i]
        ops = []
        outer = set(self.net.outer())
        for j in self.tensors_of(a):
            ix, arr = self.net.tensors[j]
            ops.append((list(ix), arr))
            ops.append(([y if y in outer else self._bra(y) for y in ix], np.conj(arr)))
        for c in self.nbr[a]:
            ops.append(self.message_op(c, a))
        m = einsum_labels(ops, [x]).real
        return m / m.sum()

    def tensor_marginal(self, i):
        ix, _ = self.net.tensors[i]
        m = einsum_labels(self.node_ops(self.net.name[i]), list(ix))
        return m / m.sum()

    def truncations_ok(self, limit=400):
        """Exact cancellation is an artefact of small signed / complex integers: a message that is
        computed from partly converged inputs may vanish identically (then every flavour divides 0 by 0
        when it normalises it).  Enumerate, for every message, its value for EVERY pattern of not yet
        absorbed upstream parts (boundary: all-ones messages, norm 2: identity), i.e. every value any
        schedule can produce from the default / all-ones initialisation, and require that none of them
        vanishes (hyper graphs: has a vanishing entry or sum)."""
        memo = {}

        def boundary(a, b):
            labs = self.bonds(a, b)
            dims = [self.net.dims[x] for x in labs]
            if self.norm == 1:
                return np.ones(dims, dtype=complex)
            d = int(np.prod(dims))
            return np.eye(d, dtype=complex).reshape(dims + dims)

        def ok(m):
            nm = np.linalg.norm(m)
            if not np.isfinite(nm) or nm < 1e-9:
                return False
            if self.net.gk == "hyper" and (np.min(np.abs(m)) < 1e-9 * nm or abs(m.sum()) < 1e-9 * nm):
                return False
            return True

        def vals(a, b):
            key = (a, b)
            if key in memo:
                return memo[key]
            deps = [c for c in self.nbr[a] if c != b]
            labs = self.bonds(a, b)
            out = [boundary(a, b)]
            combos = [[]]
            for c in deps:
                vc = vals(c, a)
                if vc is None:
                    memo[key] = None
                    return None
                combos = [cb + [(c, v)] for cb in combos for v in vc]
                if len(combos) > limit:
                    memo[key] = None
                    return None
            for cb in combos:
                if self.net.gk == "hyper" and a in self.inodes:
                    m = np.ones(self.net.dims[a], dtype=complex)
                    for _, v in cb:
                        m = m * v
                else:
                    ops = []
                    outer = set(self.net.outer())
                    for i in self.tensors_of(a):
                        ix, arr = self.net.tensors[i]
                        ops.append((list(ix), arr))
                        if self.norm == 2:
                            ops.append(([x if x in outer else self._bra(x) for x in ix], np.conj(arr)))
                    for c, v in cb:
                        lc = self.bonds(c, a)
                        ops.append((([self._bra(x) for x in lc] + lc) if self.norm == 2 else lc, v))
                    m = einsum_labels(ops, ([self._bra(x) for x in labs] + labs) if self.norm == 2 else labs)
                if not ok(m):
                    memo[key] = None
                    return None
                out.append(m / np.linalg.norm(m))
            memo[key] = out
            return out

        for a, b in itertools.chain(self.edges, [e[::-1] for e in self.edges]):
            if vals(a, b) is None:
                return False
        return True

    def degenerate(self):
        """a vanishing exact message or value: BP's normalisations are singular there"""
        for m in self.all_messages().values():
            if not np.all(np.isfinite(m)) or np.linalg.norm(m) < 1e-9 or abs(m.sum()) < 1e-9:
                return True
            # hyper flavours divide the product of all messages at a label by each message ("smudge"):
            # an entry that cancels to exactly zero (signed integer data) is outside that trick
            if self.net.gk == "hyper" and np.min(np.abs(m)) < 1e-9 * np.linalg.norm(m):
                return True
        return abs(self.value()) < 1e-9


def brute_value(net, norm=1):
    """sum over all assignments with one einsum (small networks only)"""
    ops = [(list(ix), a) for ix, a in net.tensors]
    if norm == 1:
        return complex(einsum_labels(ops, []))
    amp = einsum_labels(ops, net.phys)
    return complex(np.sum(np.abs(amp) ** 2))


def dense_of(tn, out):
    """dense tensor of a quimb network over the labels `out` by plain einsum on t.inds / t.data"""
    return einsum_labels([(list(t.inds), np.asarray(t.data)) for t in tn], list(out))


def fits(net, norm):
    """all numbers TLC will compute stay well inside 32-bit integers"""
    ops = [(list(ix), np.abs(a)) for ix, a in net.tensors]
    if norm == 1:
        tot = float(einsum_labels(ops, []))
    else:
        amp = einsum_labels(ops, net.phys)
        tot = float(np.sum(amp ** 2))
    return tot < RATMAX


# ----------------------------------------------------------------------------- snapping

def obs_scalar(z, tol=1e-8):
    s = snap_gint(z, tol)
    if s == "OFFGRID":
        return {"off": True, "v": [0, 0]}
    return {"off": False, "v": s}


def obs_ratvec(p, tol=1e-10):
    """real vector of rationals with denominators < RATMAX -> reduced [num, den] pairs"""
    out = []
    p = np.asarray(p).reshape(-1)
    for v in p:
        v = complex(v)
        if not math.isfinite(v.real) or abs(v.imag) > tol * (1 + abs(v)):
            return {"off": True, "p": []}
        f = Fraction(v.real).limit_denominator(RATMAX)
        if abs(float(f) - v.real) > tol * (1 + abs(v.real)):
            return {"off": True, "p": []}
        out.append([int(f.numerator), int(f.denominator)])
    return {"off": False, "p": out}


def obs_garray(a, tol=1e-8):
    out = []
    for v in np.asarray(a).reshape(-1):
        s = snap_gint(v, tol)
        if s == "OFFGRID":
            return {"off": True, "a": []}
        out.append(s)
    return {"off": False, "a": out}


def prop_dist(m, M):
    """distance between the directions of two arrays (0: proportional)"""
    m = np.asarray(m, dtype=complex).reshape(-1)
    M = np.asarray(M, dtype=complex).reshape(-1)
    if m.shape != M.shape:
        return 9.0
    nm, nM = np.linalg.norm(m), np.linalg.norm(M)
    if not (np.isfinite(nm) and np.isfinite(nM)) or nm == 0 or nM == 0:
        return 9.0
    ov = np.vdot(M, m)
    if ov == 0:
        return 9.0
    return float(np.linalg.norm(m / nm - (ov / abs(ov)) * M / nM))


# ----------------------------------------------------------------------------- BP objects

FLAVS = {
    "D1BP": ("dense", 1), "D2BP": ("dense", 2), "L1BP": ("lazy", 1), "L2BP": ("lazy", 2),
    "HD1BP": ("hyper", 1), "HV1BP": ("hyper", 1),
}


def site_tags(net):
    out = []
    for s in net.name:
        if s not in out:
            out.append(s)
    return out


def make_bp(flav, net, tn, opts, rng):
    """construct the BP object through its public constructor.  opts: update, lc, damping, init"""
    import quimb.tensor.belief_propagation as bpm

    kw = {"damping": opts.get("damping", 0.0), "update": opts.get("update", "sequential")}
    for k in ("normalize", "distance"):
        if opts.get(k) is not None:
            kw[k] = opts[k]
    custom = opts.get("init", "default") == "custom"

    cplx = any(np.iscomplexobj(a) for _, a in net.tensors)

    def fill(shape):
        # a user-supplied initialisation in the dtype of the network
        a = rng.uniform(0.5, 1.5, size=shape)
        return a + 1j * rng.uniform(-0.5, 0.5, size=shape) if cplx else a

    if flav == "D1BP":
        kw["local_convergence"] = opts.get("lc", True)
        if custom:
            kw["message_init_function"] = fill
        return bpm.D1BP(tn, **kw)
    if flav == "D2BP":
        kw["local_convergence"] = opts.get("lc", True)
        if custom:
            msgs = {}
            for ix, tids in tn.ind_map.items():
                if len(tids) == 2:
                    d = tn.ind_size(ix)
                    for tid in tids:
                        a = rng.normal(size=(d, d)) + (1j * rng.normal(size=(d, d)) if cplx else 0)
                        msgs[ix, tid] = a @ a.conj().T + 0.1 * np.eye(d)
            kw["messages"] = msgs
        return bpm.D2BP(tn, **kw)
    if flav == "L1BP":
        kw["local_convergence"] = opts.get("lc", True)
        if custom:
            kw["message_init_function"] = fill
        return bpm.L1BP(tn, site_tags=site_tags(net), **kw)
    if flav == "L2BP":
        kw["local_convergence"] = opts.get("lc", True)
        return bpm.L2BP(tn, site_tags=site_tags(net), **kw)
    if flav == "HD1BP":
        if custom:
            kw["messages"] = fill
        return bpm.HD1BP(tn, **kw)
    if flav == "HV1BP":
        kw["update"] = "parallel"
        kw.pop("normalize", None)
        kw.pop("distance", None)
        if opts.get("init") == "dense":
            kw["messages"] = "dense"
        elif custom:
            kw["messages"] = fill
        return bpm.HV1BP(tn, **kw)
    raise ValueError(flav)


def read_messages(flav, bp, net):
    """{(src, dst): array} in the node naming of Net.graph(); axes as in Ref.message"""
    out = {}
    if flav in ("D1BP", "D2BP"):
        pos = {tid: pos_of_tensor(t) for tid, t in bp.tn.tensor_map.items()}
        for (ix, tid), m in bp.messages.items():
            others = [o for o in bp.tn.ind_map[ix] if o != tid]
            if len(others) != 1:
                continue
            out[net.name[pos[others[0]]], net.name[pos[tid]]] = np.asarray(m)
        return out
    if flav in ("L1BP", "L2BP"):
        ref = Ref(net, 1)
        for (i, j), tm in bp.messages.items():
            labs = ref.bonds(i, j)
            if flav == "L1BP":
                out[i, j] = np.asarray(tm.transpose(*labs).data)
            else:
                out[i, j] = np.asarray(tm.transpose(*[x + "_l2bp*" for x in labs], *labs).data)
        return out
    msgs = bp.messages if flav == "HD1BP" else bp.get_messages_dense()
    pos = {tid: pos_of_tensor(t) for tid, t in bp.tn.tensor_map.items()}
    for (a, b), m in msgs.items():
        if a in pos and not isinstance(a, str):
            out[net.name[pos[a]], b] = np.asarray(m)
        else:
            out[a, net.name[pos[b]]] = np.asarray(m)
    return out


def exact_pairs(flav, bp, net, refmsgs, tol):
    got = read_messages(flav, bp, net)
    ex = []
    for key, M in refmsgs.items():
        if key in got and prop_dist(got[key], M) < tol:
            ex.append([key[0], key[1]])
    return ex, [[a, b] for a, b in got]


def bool_(x):
    return bool(x)
