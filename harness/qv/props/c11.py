"""C11 - TEBD equals its documented Trotter product and converges at the stated order.

TLC side : spec/C11/C11_TEBD.tla explores every history of public calls (update_to / at_times /
           step) of the implementation-shaped transcription C11_Impl (sweep's queue merging, step,
           update_to's loop + final partial step, at_times) over dyadic steps and targets and checks
           the property-level statements of C11_Defs (TimeExact, QueueDrained, ProductFormula,
           ClassSums, StepsWithinDt, Symmetric, ImagNormalised, WrapOriented, TotalSums).
S->C     : call sequences simulated by TLC are replayed on real TEBD objects.
C->S     : seeded random histories on chains of length 2-6 (open / periodic, real / imaginary time,
           several split options, tolerance-chosen steps), every applied gate recorded by wrapping
           LocalHam1D.get_gate_expm and MatrixProductState.gate_split_; LocalHam* sums on exact
           integer matrices; expm cache around apply_to_arrays; convergence orders; arbitrary
           geometry get_trotter_gates / TEBDGen.  All judged by spec/C11/C11_Trace.tla.
"""

import gc
import random

import numpy as np
import scipy.linalg as sla

from .. import tlc as T
from ..ctx import MachineryError
from ..snap import qdiff
from . import c11_util as U

TLC_ENV = {"_JAVA_OPTIONS": "-Xss256m"}   # deep (not infinite) recursion over gate sequences
DTNONE = -1


# ----------------------------------------------------------------------------- chains

def make_chain(rng, L, cyclic, sym_wrap=False, unit_norm=None, cplx=True):
    """site dependent, non exchange symmetric two-site terms + one-site terms"""
    import quimb.tensor as qtn

    nb = L if (cyclic and L > 2) else L - 1
    H2 = {}
    for b in range(nb):
        h = U.rand_herm(rng, 4, cplx)
        if unit_norm is not None:
            h = h * (unit_norm / np.linalg.norm(h))
        key = (b, (b + 1) % L)
        if cyclic and b == L - 1 and sym_wrap:
            h = (h + U.flip2(h)) / 2.0
        H2[key] = h
    H1 = None
    if unit_norm is None and rng.random() < 0.7:
        H1 = {i: U.rand_herm(rng, 2, cplx, 0.5) for i in range(L)}
    ham = qtn.LocalHam1D(L, H2=H2, H1=H1, cyclic=cyclic)
    return ham, H2, H1


def dense_ham(H2, H1, L):
    H = sum(U.embed(h, list(k), L) for k, h in H2.items())
    if H1:
        H = H + sum(U.embed(h, [i], L) for i, h in H1.items())
    return H


class Obj:
    """one TEBD object under observation"""

    def __init__(self, rng, tid, L, cyclic, imag, grain, dt0, t0, dense, tolmode=False, split=None):
        import quimb.tensor as qtn

        self.rng, self.tid, self.L, self.cyclic, self.imag, self.grain = rng, tid, L, cyclic, imag, grain
        self.dense = dense
        self.tolmode = tolmode
        self.ham, self.H2, self.H1 = make_chain(rng, L, cyclic, unit_norm=4.0 if tolmode else None)
        bd = 1 if cyclic else int(rng.integers(1, 4))
        self.psi0 = qtn.MPS_rand_state(L, bd, cyclic=cyclic, dtype="complex128", seed=int(rng.integers(1 << 30)))
        self.ref = U.dense_state(self.psi0, L)
        self.norm0 = float(np.linalg.norm(self.ref))
        if split is None:
            split = {"cutoff": 0.0} if dense else {"max_bond": 3, "cutoff": 1e-10}
        self.split = split
        self.t = t0          # specification time (grains)
        self.sdt = dt0
        self.dt0 = dt0
        self.sweeps = 0
        self.exc = ""
        try:
            kw = {"dt": dt0 * grain} if dt0 != DTNONE else {}
            self.tebd = qtn.TEBD(self.psi0, self.ham, t0=t0 * grain, split_opts=dict(split), progbar=False,
                                 imag=imag, **kw)
        except Exception as ex:  # noqa
            self.exc = type(ex).__name__
            self.tebd = None

    def init_record(self):
        return {"ev": "init", "tid": self.tid, "L": self.L, "cyc": bool(self.cyclic), "imag": bool(self.imag),
                "dt0": self.dt0, "t0": self.t, "grain_inv": int(round(1 / self.grain)), "exc": self.exc,
                "split": {k: (v if isinstance(v, (int, str)) else str(v)) for k, v in self.split.items()}}

    def call(self, op, order, T=None, ts=None, dt=DTNONE, tol_dt=None):
        """perform one public call under the recorder and return its trace record"""
        g = self.grain
        log = U.GateLog()
        exc = ""
        yields = []
        kw = {}
        tolmode = tol_dt is not None
        target = None
        if op == "update_to":
            target = T
        elif op == "at_times":
            target = max(ts)
        if tolmode:
            # tolerance whose documented step (tol / (T * ham_norm)) ** (1 / order) is tol_dt grains
            kw["tol"] = (tol_dt * g) ** order * ((target - self.t) * g) * 4.0
        elif dt != DTNONE:
            kw["dt"] = dt * g
        try:
            with U.recording(log):
                if op == "update_to":
                    self.tebd.update_to(T * g, order=order, progbar=False, **kw)
                elif op == "at_times":
                    for pt in self.tebd.at_times([x * g for x in ts], order=order, progbar=False, **kw):
                        yields.append(U.snap_time(self.tebd.t, g))
                elif op == "step":
                    self.tebd.step(order=order, **kw)
        except Exception as ex:  # noqa
            exc = type(ex).__name__
        grecs, exps = U.gate_records(log, self.ham.terms, self.imag, g)
        tq = U.snap_time(self.tebd.t, g)
        dtu = U.snap_time(self.tebd._dt, g) if self.tebd._dt is not None else DTNONE
        rec = {"ev": "call", "tid": self.tid, "op": op, "order": order, "dt": dt, "tolmode": tolmode,
               "dtwant": tol_dt if tolmode else 0,
               "exc": exc, "gates": grecs, "tgrid": tq is not None, "t": tq if tq is not None else 0,
               "dtgrid": dtu is not None, "dtused": dtu if dtu is not None else 0,
               "queued": bool(getattr(self.tebd, "_queued_sweep", None)),
               "yields": [y if y is not None else -7 for y in yields],
               "dense": False, "dq": 0, "nq": 0, "cyc": bool(self.cyclic), "imag": bool(self.imag), "L": self.L}
        if op == "update_to":
            rec["T"] = T
        if op == "at_times":
            rec["ts"] = list(ts)
        # dense relations (untruncated runs only; periodic chains double their bonds every sweep)
        nsw = len({(k, r["p"], r["q"]) for k, r in enumerate(grecs)})  # upper bound, refined below
        self.sweeps += _count_sweeps(grecs, self.L)
        if self.dense and not exc and (not self.cyclic or self.sweeps <= 7):
            ref = U.product_on_state(self.ref, exps, self.ham.terms, self.imag, g, self.L)
            if ref is not None:
                got = U.dense_state(self.tebd.pt, self.L)
                if self.imag:
                    nr = np.linalg.norm(ref)
                    ref = ref / nr if nr > 0 else ref
                    rec["nq"] = qdiff(np.linalg.norm(got), 1.0, 1e-9)
                else:
                    rec["nq"] = qdiff(np.linalg.norm(got), self.norm0, 1e-9)
                rec["dq"] = qdiff(got, ref, 1e-8)
                rec["dense"] = True
                self.ref = ref
        elif self.cyclic and self.sweeps > 7:
            self.dense = False
        # advance the specification's view of the object
        if not exc and not (op == "update_to" and T < self.t):
            if op == "step":
                self.t = self.t + (self.sdt if dt == DTNONE else dt)
            else:
                self.t = target
                self.sdt = rec["dtused"] if tolmode else (self.dt0 if dt == DTNONE else dt)
        return rec


def _count_sweeps(grecs, L):
    """number of sweeps (layers) among the recorded gates: a new one starts when the bond class or the
    coefficient changes or a bond repeats (only used to bound the cost of periodic chains)"""
    n, cur, seen = 0, None, set()
    for r in grecs:
        b = min(r["i"], r["j"]) if abs(r["i"] - r["j"]) == 1 else L - 1
        key = (b % 2, r["p"], r["q"])
        if key != cur or b in seen:
            n += 1
            cur, seen = key, set()
        seen.add(b)
    return n


# ----------------------------------------------------------------------------- C->S random histories

def random_history(seed, tid, quick):
    rng = np.random.default_rng(seed)
    L = int(rng.integers(2, 7))
    cyclic = bool(L > 2 and rng.random() < 0.4)
    imag = bool(rng.random() < 0.35)
    grain = 1.0 / 16 if rng.random() < 0.5 else 1.0 / 64
    tolmode = bool(rng.random() < 0.15)
    dense = bool(rng.random() < 0.7)
    dt0 = DTNONE if (tolmode or rng.random() < 0.4) else int(rng.integers(1, 5))
    t0 = int(rng.choice([0, 0, 0, 1, 5]))
    split = None
    if not dense:
        split = [{"max_bond": 2, "cutoff": 1e-10}, {"max_bond": 3, "cutoff": 1e-8, "cutoff_mode": "abs"},
                 {"cutoff": 1e-6, "method": "eig", "max_bond": 4}, {"max_bond": 4, "method": "svd", "renorm": True}][int(rng.integers(4))]
    ob = Obj(rng, tid, L, cyclic, imag, grain, dt0, t0, dense, tolmode=tolmode, split=split)
    recs = [ob.init_record()]
    if ob.tebd is None:
        return recs
    ncalls = int(rng.integers(1, 5))
    for _ in range(ncalls):
        order = int(rng.choice([1, 2, 4]))
        if cyclic and dense:
            order = int(rng.choice([1, 2]))
        kinds = ["update_to", "update_to", "at_times"]
        if ob.sdt != DTNONE:
            kinds.append("step")
        if rng.random() < 0.05 and ob.t > 0:
            recs.append(ob.call("update_to", order, T=ob.t - int(rng.integers(1, ob.t + 1)),
                                dt=int(rng.integers(1, 5)) if not tolmode else DTNONE,
                                tol_dt=2 if tolmode else None))
            continue
        op = kinds[int(rng.integers(len(kinds)))]
        span = 4 if (cyclic and dense) else (7 if order == 4 else 10)
        if op == "step":
            dt = DTNONE if rng.random() < 0.5 else int(rng.integers(1, 5))
            recs.append(ob.call("step", order, dt=dt))
        else:
            if tolmode:
                dt, tol_dt = DTNONE, int(rng.choice([2, 4])) if order != 1 else int(rng.choice([1, 2, 4]))
            else:
                tol_dt = None
                dt = int(rng.integers(1, 5)) if (ob.dt0 == DTNONE or rng.random() < 0.5) else DTNONE
                if cyclic and dense:
                    dt = max(dt, 2) if dt != DTNONE else dt
            if op == "update_to":
                Tt = ob.t + int(rng.integers(0, span + 1))
                if tolmode and Tt == ob.t:
                    Tt += 1          # the tolerance route divides by T - t
                recs.append(ob.call("update_to", order, T=Tt, dt=dt, tol_dt=tol_dt))
            else:
                n = int(rng.integers(1, 4))
                ts = [ob.t + int(rng.integers(0, span + 1)) for _ in range(n)]
                if tolmode and max(ts) == ob.t:
                    ts[0] += 2
                recs.append(ob.call("at_times", order, ts=ts, dt=dt, tol_dt=tol_dt))
        if recs[-1]["exc"]:
            break
    return recs
