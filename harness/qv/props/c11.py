"""C11 - TEBD equals its documented Trotter product and converges at the stated order.

TLC side : spec/C11/C11_TEBD.tla explores every history of public calls (update_to / at_times /
           step) of the implementation-shaped transcription C11_Impl (sweep's queue merging, step,
           update_to's loop + final partial step, at_times) over dyadic steps and targets and checks
           the property-level statements of C11_Defs (TimeExact, QueueDrained, ProductFormula,
           ClassSums, StepsWithinDt, Symmetric, ImagNormalised, WrapOriented, TotalSums).
S->C     : call sequences simulated by TLC are replayed on real TEBD objects.
C->S     : seeded random histories on chains of length 2-6 (open / periodic, real / imaginary time,
           several split options, tolerance-chosen steps), every applied gate recorded by wrapping
           LocalHam1D.get_gate_expm and MatrixProductState.gate_split_; LocalHam* sums on exact
           integer matrices; expm cache around apply_to_arrays; convergence orders; arbitrary
           geometry get_trotter_gates / TEBDGen.  All judged by spec/C11/C11_Trace.tla.
"""

import gc
import random

import numpy as np
import scipy.linalg as sla

from .. import tlc as T
from ..ctx import MachineryError
from ..snap import qdiff
from . import c11_util as U

TLC_ENV = {"_JAVA_OPTIONS": "-Xss256m"}   # deep (not infinite) recursion over gate sequences
DTNONE = -1
CYC_SWEEPS = 6


# ----------------------------------------------------------------------------- chains

def make_chain(rng, L, cyclic, sym_wrap=False, unit_norm=None, cplx=True, scale=1.0, h1scale=0.5, spelled=None,
               wrap_default=False, h1=None):
    """site dependent, non exchange symmetric two-site terms + one-site terms, in every accepted spelling:
    explicit keys (ascending or descending), or a default term (key None) plus bond specific terms keyed in
    either order (the periodic boundary bond as (L-1, 0) or (0, L-1)); H1 explicit or default + specific.
    Returns (ham, H2ref, H1ref): the reference dicts hold each bond / site once, oriented as the user keyed it
    (the statement's sum rule), whatever spelling was handed to quimb."""
    import quimb.tensor as qtn

    nb = L if (cyclic and L > 2) else L - 1
    bonds = [(b, (b + 1) % L) for b in range(nb)]

    def term():
        h = U.rand_herm(rng, 4, cplx, scale)
        if unit_norm is not None:
            h = h * (unit_norm / np.linalg.norm(h))
        return h

    if spelled is None:
        spelled = bool(unit_norm is None and rng.random() < 0.4)
    H2ref = {}
    if spelled in ("array", "none-key"):
        # every bond (the periodic boundary bond included, read as (L-1, 0)) carries the default term, which is a
        # generic Hermitian matrix, hence not symmetric under exchange of its two sites
        default = term()
        H2 = default if spelled == "array" else {None: default}
        H2ref = {key: default for key in bonds}
    elif spelled:
        default = term()
        H2 = {None: default}
        nspec = int(rng.integers(1, max(2, nb)))
        spec = set(int(x) for x in rng.choice(nb, size=min(nspec, nb), replace=False))
        if wrap_default:
            spec.discard(nb - 1)         # the boundary bond keeps the default term
            if not spec and nb > 1:
                spec.add(int(rng.integers(0, nb - 1)))
        elif cyclic and L > 2 and rng.random() < 0.6:
            spec.add(nb - 1)             # the boundary bond, keyed either way
        for b, key in enumerate(bonds):
            if b in spec:
                k2 = key if rng.random() < 0.5 else (key[1], key[0])
                H2[k2] = term()
                H2ref[k2] = H2[k2]
            else:
                H2ref[key] = default
    else:
        H2 = {}
        for b, key in enumerate(bonds):
            h = term()
            if cyclic and b == L - 1 and sym_wrap:
                h = (h + U.flip2(h)) / 2.0
            k2 = key if (unit_norm is not None or rng.random() < 0.7) else (key[1], key[0])
            H2[k2] = h
            H2ref[k2] = h
    H1, H1ref = None, None
    if h1 == "array":
        H1 = U.rand_herm(rng, 2, cplx, h1scale)
        H1ref = {i: H1 for i in range(L)}
    elif h1 != "none" and unit_norm is None and rng.random() < 0.7:
        if spelled and rng.random() < 0.6:
            d1 = U.rand_herm(rng, 2, cplx, h1scale)
            H1 = {None: d1}
            H1ref = {i: d1 for i in range(L)}
            for i in rng.choice(L, size=int(rng.integers(0, L)), replace=False):
                H1[int(i)] = U.rand_herm(rng, 2, cplx, h1scale)
                H1ref[int(i)] = H1[int(i)]
        else:
            H1 = {i: U.rand_herm(rng, 2, cplx, h1scale) for i in range(L)}
            H1ref = dict(H1)
    ham = qtn.LocalHam1D(L, H2=(dict(H2) if isinstance(H2, dict) else H2),
                         H1=(dict(H1) if isinstance(H1, dict) else H1), cyclic=cyclic)
    return ham, H2ref, H1ref


def dense_ham(H2, H1, L):
    H = sum(U.embed(h, list(k), L) for k, h in H2.items())
    if H1:
        H = H + sum(U.embed(h, [i], L) for i, h in H1.items())
    return H


class Obj:
    """one TEBD object under observation"""

    def __init__(self, rng, tid, L, cyclic, imag, grain, dt0, t0, dense, tolmode=False, split=None, chain_kw=None):
        import quimb.tensor as qtn

        self.rng, self.tid, self.L, self.cyclic, self.imag, self.grain = rng, tid, L, cyclic, imag, grain
        self.dense = dense
        self.tolmode = tolmode
        self.ham, self.H2, self.H1 = make_chain(rng, L, cyclic, unit_norm=4.0 if tolmode else None, **(chain_kw or {}))
        bd = 1 if cyclic else int(rng.integers(1, 4))
        self.psi0 = qtn.MPS_rand_state(L, bd, cyclic=cyclic, dtype="complex128", seed=int(rng.integers(1 << 30)))
        self.ref = U.dense_state(self.psi0, L)
        self.norm0 = float(np.linalg.norm(self.ref))
        if split is None:
            split = {"cutoff": 0.0} if dense else {"max_bond": 3, "cutoff": 1e-10}
            if dense and cyclic:
                # no canonical form on a ring: every sweep doubles the bonds, so the untruncated comparison is
                # limited to the first CYC_SWEEPS sweeps (bonds <= 2**CYC_SWEEPS) and the cost is capped after
                split = {"cutoff": 0.0, "max_bond": 2 ** CYC_SWEEPS}
        self.split = split
        self.t = t0          # specification time (grains)
        self.sdt = dt0
        self.dt0 = dt0
        self.sweeps = 0
        self.pending = False     # specification view: the last call was made with queue=True
        self.exc = ""
        try:
            kw = {"dt": dt0 * grain} if dt0 != DTNONE else {}
            self.tebd = qtn.TEBD(self.psi0, self.ham, t0=t0 * grain, split_opts=dict(split), progbar=False,
                                 imag=imag, **kw)
        except Exception as ex:  # noqa
            self.exc = type(ex).__name__
            self.tebd = None

    def init_record(self):
        return {"ev": "init", "tid": self.tid, "L": self.L, "cyc": bool(self.cyclic), "imag": bool(self.imag),
                "dt0": self.dt0, "t0": self.t, "grain_inv": int(round(1 / self.grain)), "exc": self.exc,
                "split": {k: (v if isinstance(v, (int, str)) else str(v)) for k, v in self.split.items()}}

    def call(self, op, order, T=None, ts=None, dt=DTNONE, tol_dt=None, q=False, d=None, fp=None):
        """perform one public call under the recorder and return its trace record"""
        g = self.grain
        log = U.GateLog()
        exc = ""
        yields = []
        kw = {}
        tolmode = tol_dt is not None
        target = None
        if op == "update_to":
            target = T
        elif op == "at_times":
            target = max(ts)
        if tolmode:
            # tolerance whose documented step (tol / (T * ham_norm)) ** (1 / order) is tol_dt grains
            kw["tol"] = (tol_dt * g) ** order * ((target - self.t) * g) * 4.0
        elif dt != DTNONE:
            kw["dt"] = dt * g
        try:
            with U.recording(log):
                if op == "update_to":
                    self.tebd.update_to(T * g, order=order, progbar=False, **kw)
                elif op == "at_times":
                    for pt in self.tebd.at_times([x * g for x in ts], order=order, progbar=False, **kw):
                        yields.append(U.snap_time(self.tebd.t, g))
                elif op == "step":
                    if q:
                        kw["queue"] = True
                    self.tebd.step(order=order, **kw)
                elif op == "sweep":
                    self.tebd.sweep("right" if d == "R" else "left", 0.5 * fp, queue=bool(q), **kw)
        except Exception as ex:  # noqa
            exc = type(ex).__name__
        grecs, exps = U.gate_records(log, self.ham.terms, self.imag, g)
        tq = U.snap_time(self.tebd.t, g)
        dtu = U.snap_time(self.tebd._dt, g) if self.tebd._dt is not None else DTNONE
        newdt = None if op in ("step", "sweep") else (dtu if tolmode else (self.dt0 if dt == DTNONE else dt))
        rec = {"ev": "call", "tid": self.tid, "op": op, "order": order, "dt": dt, "tolmode": tolmode, "q": bool(q),
               "d": d or "", "fp": fp or 0,
               # input description: the step is changed while a sweep is queued (queued fraction is relative to _dt)
               "dtchange_queued": bool(self.pending and newdt is not None and newdt != self.sdt),
               "dtwant": tol_dt if tolmode else 0,
               "exc": exc, "gates": grecs, "tgrid": tq is not None, "t": tq if tq is not None else 0,
               "dtgrid": dtu is not None, "dtused": dtu if dtu is not None else 0,
               "queued": bool(getattr(self.tebd, "_queued_sweep", None)),
               "yields": [y if y is not None else -7 for y in yields],
               "dense": False, "dq": 0, "nq": 0, "cyc": bool(self.cyclic), "imag": bool(self.imag), "L": self.L}
        if op == "update_to":
            rec["T"] = T
        if op == "at_times":
            rec["ts"] = list(ts)
        # dense relations (untruncated runs only; periodic chains double their bonds every sweep)
        self.sweeps += _count_sweeps(grecs, self.L)
        if self.dense and not exc and (not self.cyclic or self.sweeps <= CYC_SWEEPS):
            ref = U.product_on_state(self.ref, exps, self.ham.terms, self.imag, g, self.L)
            if ref is not None:
                got = U.dense_state(self.tebd.pt, self.L)
                if self.imag:
                    # normalised product formula: direction and norm are two clauses
                    nr, ng = np.linalg.norm(ref), np.linalg.norm(got)
                    ref = ref / nr if nr > 0 else ref
                    rec["nq"] = qdiff(ng, 1.0, 1e-9)
                    rec["dq"] = qdiff(got / ng if ng > 0 else got, ref, 1e-8)
                else:
                    rec["nq"] = qdiff(np.linalg.norm(got), self.norm0, 1e-9)
                    rec["dq"] = qdiff(got, ref, 1e-8)
                rec["dense"] = True
                self.ref = ref
            else:
                self.dense = False   # no reference any more for this object: only its gate log is judged from here on
        elif self.cyclic and self.sweeps > CYC_SWEEPS:
            self.dense = False       # bonds reached the cap: later states are truncated, only the gate log is judged
        # advance the specification's view of the object
        if not exc and not (op == "update_to" and T < self.t):
            self.pending = bool(q)
            if op == "sweep":
                pass
            elif op == "step":
                self.t = self.t + (self.sdt if dt == DTNONE else dt)
            else:
                self.t = target
                self.sdt = rec["dtused"] if tolmode else (self.dt0 if dt == DTNONE else dt)
        return rec


def _count_sweeps(grecs, L):
    """number of sweeps (layers) among the recorded gates: a new one starts when the bond class or the
    coefficient changes or a bond repeats (only used to bound the cost of periodic chains)"""
    n, cur, seen = 0, None, set()
    for r in grecs:
        b = min(r["i"], r["j"]) if abs(r["i"] - r["j"]) == 1 else L - 1
        key = (b % 2, r["p"], r["q"])
        if key != cur or b in seen:
            n += 1
            cur, seen = key, set()
        seen.add(b)
    return n


# ----------------------------------------------------------------------------- C->S random histories

def random_history(seed, tid, quick):
    rng = np.random.default_rng(seed)
    L = int(rng.integers(2, 7))
    cyclic = bool(L > 2 and rng.random() < 0.4)
    imag = bool(rng.random() < 0.35)
    grain = 1.0 / 16 if rng.random() < 0.5 else 1.0 / 64
    tolmode = bool(rng.random() < 0.15)
    dense = bool(rng.random() < 0.7)
    dt0 = DTNONE if (tolmode or rng.random() < 0.4) else int(rng.integers(1, 5))
    t0 = int(rng.choice([0, 0, 0, 1, 5]))
    split = None
    if not dense:
        split = [{"max_bond": 2, "cutoff": 1e-10}, {"max_bond": 3, "cutoff": 1e-8, "cutoff_mode": "abs"},
                 {"cutoff": 1e-6, "method": "eig", "max_bond": 4}, {"max_bond": 4, "method": "svd", "renorm": True}][int(rng.integers(4))]
    ob = Obj(rng, tid, L, cyclic, imag, grain, dt0, t0, dense, tolmode=tolmode, split=split)
    recs = [ob.init_record()]
    if ob.tebd is None:
        return recs
    ncalls = int(rng.integers(1, 5))
    for _ in range(ncalls):
        order = int(rng.choice([1, 2, 4]))
        if cyclic and dense:
            order = int(rng.choice([1, 2]))
        kinds = ["update_to", "update_to", "at_times"]
        if ob.sdt != DTNONE:
            kinds.append("step")
        if rng.random() < 0.05 and ob.t > 0:
            recs.append(ob.call("update_to", order, T=ob.t - int(rng.integers(1, ob.t + 1)),
                                dt=int(rng.integers(1, 5)) if not tolmode else DTNONE,
                                tol_dt=2 if tolmode else None))
            continue
        op = kinds[int(rng.integers(len(kinds)))]
        span = 4 if (cyclic and dense) else (7 if order == 4 else 10)
        if op == "step":
            if rng.random() < 0.25:
                # a short run of direct calls with per-call dt and queue flags (queued sweeps merge across them)
                for _j in range(int(rng.integers(1, 4))):
                    dt = DTNONE if rng.random() < 0.35 else int(rng.integers(1, 5))
                    if rng.random() < 0.3:
                        recs.append(ob.call("sweep", 0, dt=dt, q=bool(rng.random() < 0.6),
                                            d="R" if rng.random() < 0.5 else "L", fp=int(rng.integers(1, 3))))
                    else:
                        recs.append(ob.call("step", int(rng.choice([1, 2, 4])) if not (cyclic and dense) else order,
                                            dt=dt, q=bool(rng.random() < 0.7)))
                    if recs[-1]["exc"]:
                        break
            else:
                dt = DTNONE if rng.random() < 0.5 else int(rng.integers(1, 5))
                recs.append(ob.call("step", order, dt=dt, q=bool(rng.random() < 0.3)))
        else:
            if tolmode:
                dt, tol_dt = DTNONE, int(rng.choice([2, 4])) if order != 1 else int(rng.choice([1, 2, 4]))
            else:
                tol_dt = None
                dt = int(rng.integers(1, 5)) if (ob.dt0 == DTNONE or rng.random() < 0.5) else DTNONE
                if ob.pending and rng.random() < 0.8:
                    # keep the step in force while a sweep is queued (changing it is the separate case dtchange_queued)
                    dt = ob.sdt if ob.sdt != ob.dt0 else DTNONE
                if cyclic and dense:
                    dt = max(dt, 2) if dt != DTNONE else dt
            if op == "update_to":
                Tt = ob.t + int(rng.integers(0, span + 1))
                if tolmode and Tt == ob.t:
                    Tt += 1          # the tolerance route divides by T - t
                recs.append(ob.call("update_to", order, T=Tt, dt=dt, tol_dt=tol_dt))
            else:
                n = int(rng.integers(1, 4))
                ts = [ob.t + int(rng.integers(0, span + 1)) for _ in range(n)]
                if tolmode and max(ts) == ob.t:
                    ts[0] += 2
                recs.append(ob.call("at_times", order, ts=ts, dt=dt, tol_dt=tol_dt))
        if recs[-1]["exc"]:
            break
    if ob.pending and not recs[-1]["exc"]:
        # the final drain: whatever is still queued must come out with the right duration
        if rng.random() < 0.5:
            recs.append(ob.call("step", int(rng.choice([1, 2, 4])) if not (cyclic and dense) else 1,
                                dt=DTNONE if rng.random() < 0.5 else int(rng.integers(1, 5))))
        else:
            recs.append(ob.call("update_to", int(rng.choice([1, 2])), T=ob.t + int(rng.integers(0, 4)),
                                dt=ob.sdt if ob.sdt != ob.dt0 else DTNONE))
    return recs


# ----------------------------------------------------------------------------- fixed histories (every run)

# (L, cyclic, imag, dt0, chain keywords, calls); a call is (op, order, dict of arguments)
SCRIPTS = [
    # rings whose boundary bond carries a non exchange symmetric DEFAULT term, in the three spellings
    (4, True, False, 2, {"spelled": "array", "h1": "array"}, [("update_to", 2, {"T": 3})]),
    (3, True, True, DTNONE, {"spelled": "none-key", "h1": "none"}, [("update_to", 1, {"T": 2, "dt": 1})]),
    (5, True, False, 2, {"spelled": True, "wrap_default": True}, [("at_times", 1, {"ts": [3, 2]})]),
    (4, True, True, 2, {"spelled": True, "wrap_default": True}, [("step", 2, {}), ("step", 1, {"dt": 1})]),
    # custom steps and queue=True in a run of direct calls, then the drain with the default step
    (4, False, False, 2, {}, [("step", 2, {"dt": 3, "q": True}), ("step", 2, {"dt": 1, "q": True}), ("step", 2, {})]),
    (5, False, False, 3, {}, [("step", 4, {"dt": 2, "q": True}), ("step", 1, {"q": True}), ("step", 2, {"dt": 4, "q": True}),
                              ("update_to", 2, {"T": 12})]),
    (6, False, True, 2, {}, [("sweep", 0, {"d": "R", "fp": 1, "dt": 3, "q": True}), ("sweep", 0, {"d": "L", "fp": 2, "dt": 3, "q": True}),
                             ("sweep", 0, {"d": "R", "fp": 1, "dt": 3})]),
    # a pending sweep followed by an unqueued sweep of the same direction
    (5, False, False, 2, {}, [("step", 2, {"q": True}), ("sweep", 0, {"d": "R", "fp": 1}), ("step", 1, {})]),
    (3, False, False, 2, {}, [("step", 4, {"dt": 1, "q": True}), ("sweep", 0, {"d": "R", "fp": 2, "dt": 3}), ("update_to", 4, {"T": 6})]),
    # imaginary time, order 1 (ends with a left sweep), open chains incl. two sites; rings
    (3, False, True, 2, {}, [("update_to", 1, {"T": 5})]),
    (2, False, True, 1, {}, [("update_to", 1, {"T": 2}), ("step", 2, {})]),
    (4, False, True, DTNONE, {}, [("at_times", 1, {"ts": [2, 5], "dt": 2})]),
    # order 4 with a final partial step, repeated target, unsorted at_times with a repeat
    (6, False, False, 2, {}, [("update_to", 4, {"T": 7}), ("update_to", 4, {"T": 7}), ("at_times", 4, {"ts": [9, 8, 9], "dt": 3})]),
    # a remainder of 3/4 of the step, a remainder of one grain, then a backwards target (rejection)
    (5, False, False, DTNONE, {}, [("update_to", 2, {"T": 7, "dt": 4}), ("update_to", 1, {"T": 8, "dt": 4}), ("update_to", 2, {"T": 3})]),
]


def scripted_history(seed, tid, script):
    L, cyclic, imag, dt0, chain_kw, calls = script
    rng = np.random.default_rng(seed)
    ob = Obj(rng, tid, L, cyclic, imag, 1.0 / 16, dt0, 0, True, chain_kw=dict(chain_kw))
    recs = [ob.init_record()]
    if ob.tebd is None:
        return recs
    for op, order, a in calls:
        recs.append(ob.call(op, order, T=a.get("T"), ts=a.get("ts"), dt=a.get("dt", DTNONE), q=a.get("q", False),
                            d=a.get("d"), fp=a.get("fp")))
        if recs[-1]["exc"]:
            break
    return recs


# ----------------------------------------------------------------------------- S->C replay of TLC behaviours

def replay_behaviour(beh, seed, tid):
    """beh: list of model history entries [{call: {op, order, args}, dt0, t, layers}]"""
    rng = np.random.default_rng(seed)
    L = int(rng.integers(3, 7))
    cyclic = bool(rng.random() < 0.35)
    imag = bool(rng.random() < 0.3)
    dense = bool(not cyclic and rng.random() < 0.6)
    dt0 = int(beh[0]["dt0"])
    ob = Obj(rng, tid, L, cyclic, imag, 1.0 / 64, dt0, 0, dense)
    recs = [ob.init_record()]
    if ob.tebd is None:
        return recs
    for e in beh:
        c = e["call"]
        a = c["args"]
        if c["op"] == "update_to":
            r = ob.call("update_to", int(a["order"]), T=int(a["T"]), dt=int(a["dt"]))
        elif c["op"] == "at_times":
            r = ob.call("at_times", int(a["order"]), ts=[int(x) for x in a["ts"]], dt=int(a["dt"]))
        elif c["op"] == "sweep":
            r = ob.call("sweep", 0, dt=int(a["dt"]), q=bool(a["q"]), d=a["d"], fp=int(a["fp"]))
        else:
            r = ob.call("step", int(a["order"]), dt=int(a["dt"]), q=bool(a.get("q", False)))
        r["model_t"] = int(e["t"])
        recs.append(r)
        if r["exc"]:
            break
    return recs


# ----------------------------------------------------------------------------- LocalHam*: exact sums

def _coord_numbers(pairs):
    c = {}
    for a, b in pairs:
        c[a] = c.get(a, 0) + 1
        c[b] = c.get(b, 0) + 1
    return c


def ham_case(rng, k):
    """LocalHam1D / LocalHamGen / LocalHam2D from small Gaussian-integer matrices; one-site parts are
    multiples of the coordination number so that the shared parts stay integers"""
    import quimb.tensor as qtn

    kind = ["1d", "1d", "1d-default", "gen", "gen-rev", "2d"][k % 6]
    exc = ""
    supplied, terms_rec, n = [], [], 0
    site_id = None
    dqsum = 0
    try:
        if kind.startswith("1d"):
            L = int(rng.integers(2, 5)) if k % 12 < 10 else 4
            cyclic = bool(L > 2 and rng.random() < 0.5)
            if kind == "1d-default" and k < 24:
                L, cyclic = (3, 4, 4, 4)[(k // 6) % 4], True     # k = 2, 8, 14, 20: rings in every quick run
            n = L
            nb = L if cyclic else L - 1
            pairs = [(b, (b + 1) % L) for b in range(nb)]
            und = [tuple(sorted(p)) for p in pairs]
            cn = _coord_numbers(und)
            if kind == "1d-default":
                h2 = U.rand_gint_matrix(rng, 4)
                sp0 = pairs[int(rng.integers(len(pairs)))] if k % 4 else pairs[-1]
                special = sp0 if rng.random() < 0.4 else (sp0[1], sp0[0])     # ascending / descending / (0, L-1)
                if k < 24:
                    # fixed: interior bond ascending / interior descending / boundary as (0, L-1) / as (L-1, 0)
                    sp0 = (pairs[0], pairs[1], pairs[-1], pairs[-1])[(k // 6) % 4]
                    special = (sp0, (sp0[1], sp0[0]), (sp0[1], sp0[0]), sp0)[(k // 6) % 4]
                hs = U.rand_gint_matrix(rng, 4)
                H2 = {None: h2, special: hs}
                sup2 = {p: h2 for p in pairs if p != sp0}
                sup2[special] = hs
                lcm = 2 if L > 2 else 1
                h1 = lcm * U.rand_gint_matrix(rng, 2)
                extra = int(rng.integers(L))
                h1x = cn[extra] * U.rand_gint_matrix(rng, 2)
                H1 = {None: h1, extra: h1x}
                sup1 = {i: (h1x if i == extra else h1) for i in range(L)}
            else:
                # keys in either orientation
                H2, sup2 = {}, {}
                for p in pairs:
                    h = U.rand_gint_matrix(rng, 4)
                    key = p if rng.random() < 0.6 else (p[1], p[0])
                    H2[key] = h
                    sup2[key] = h
                sup1 = {i: cn[i] * U.rand_gint_matrix(rng, 2) for i in range(L) if rng.random() < 0.8}
                H1 = dict(sup1) if sup1 else None
            ham = qtn.LocalHam1D(L, H2=H2, H1=H1, cyclic=cyclic)
            site_id = {i: i for i in range(L)}
        elif kind in ("gen", "gen-rev"):
            graphs = [[(0, 1), (1, 2), (0, 2)], [(0, 1), (0, 2), (0, 3)], [(0, 1), (1, 2), (2, 3), (0, 3)], [(0, 2), (1, 2)]]
            edges = graphs[(k // 6) % len(graphs)]
            n = 1 + max(max(e) for e in edges)
            cn = _coord_numbers(edges)
            H2, sup2 = {}, {}
            for e in edges:
                key = e if (kind == "gen" or rng.random() < 0.5) else (e[1], e[0])
                if kind == "gen-rev" and k < 24 and e == edges[-1]:
                    key = (e[1], e[0])           # at least one descending key in every quick run
                h = U.rand_gint_matrix(rng, 4)
                H2[key] = h
                sup2[key] = h
            if kind == "gen-rev" and (k < 24 or rng.random() < 0.7):
                # the same pair supplied in both orientations: the two operators add up
                e = edges[0]
                other = (e[1], e[0]) if e in H2 else e
                h = U.rand_gint_matrix(rng, 4)
                H2[other] = h
                sup2[other] = h
            sup1 = {i: cn[i] * U.rand_gint_matrix(rng, 2) for i in range(n) if (k < 24 or rng.random() < 0.8)}
            ham = qtn.LocalHamGen(H2=H2, H1=dict(sup1) if sup1 else None)
            site_id = {i: i for i in range(n)}
        else:
            Lx, Ly = 2, 2
            n = 4
            site_id = {(i, j): i * Ly + j for i in range(Lx) for j in range(Ly)}
            bonds = [((0, 0), (0, 1)), ((1, 0), (1, 1)), ((0, 0), (1, 0)), ((0, 1), (1, 1))]
            h2 = U.rand_gint_matrix(rng, 4)
            sp = bonds[int(rng.integers(4))]
            hs = U.rand_gint_matrix(rng, 4)
            spk = sp if rng.random() < 0.5 else (sp[1], sp[0])
            H2 = {None: h2, spk: hs}
            sup2 = {b: h2 for b in bonds if b != sp}
            sup2[spk] = hs
            h1 = 2 * U.rand_gint_matrix(rng, 2)
            sup1 = {c: h1 for c in site_id}
            ham = qtn.LocalHam2D(Lx, Ly, H2=H2, H1=h1)
        for key, h in sup2.items():
            supplied.append({"sites": [site_id[key[0]], site_id[key[1]]], "m": U.garr(h)})
        for key, h in sup1.items():
            supplied.append({"sites": [site_id[key]], "m": U.garr(h)})
        ongrid = True
        got = sum(U.embed(h, [site_id[key[0]], site_id[key[1]]], n) for key, h in ham.terms.items())
        want = sum(U.embed(h, [site_id[key[0]], site_id[key[1]]], n) for key, h in sup2.items())
        if sup1:
            want = want + sum(U.embed(h, [site_id[key]], n) for key, h in sup1.items())
        dqsum = int(qdiff(got, want, 1e-10))
        for key, h in ham.terms.items():
            g = U.snap_garr(h)
            if g is None:
                ongrid = False
                g = []
            terms_rec.append({"sites": [site_id[key[0]], site_id[key[1]]], "m": g})
    except Exception as ex:  # noqa
        exc = type(ex).__name__
        ongrid = False
    return {"ev": "ham", "tid": 500000 + k, "kind": kind, "n": n, "exc": exc, "ongrid": ongrid, "dqsum": dqsum,
            "supplied": supplied, "terms": terms_rec}


def ham_default_only(rng, k):
    """fixed family: every bond carries the DEFAULT two-site term (a bare array, or a dict with only the key None),
    which is not symmetric under exchange of its sites; rings and open chains; H1 a bare array. Exact."""
    import quimb.tensor as qtn

    L, cyclic, spelling = [(3, True, "array"), (4, True, "array"), (3, True, "none-key"), (4, True, "none-key"),
                           (4, False, "array"), (3, False, "none-key")][k % 6]
    rec = {"ev": "ham", "tid": 505000 + k, "kind": "1d-" + spelling, "n": L, "exc": "", "ongrid": True, "dqsum": 0,
           "supplied": [], "terms": [], "cyc": cyclic}
    try:
        nb = L if cyclic else L - 1
        pairs = [(b, (b + 1) % L) for b in range(nb)]
        h2 = U.rand_gint_matrix(rng, 4)
        while np.array_equal(h2, U.flip2(h2)):
            h2 = U.rand_gint_matrix(rng, 4)
        h1 = 2 * U.rand_gint_matrix(rng, 2)
        ham = qtn.LocalHam1D(L, H2=(h2 if spelling == "array" else {None: h2}), H1=h1, cyclic=cyclic)
        rec["supplied"] = [{"sites": [a, b], "m": U.garr(h2)} for a, b in pairs] + \
                          [{"sites": [i], "m": U.garr(h1)} for i in range(L)]
        got = sum(U.embed(h, list(key), L) for key, h in ham.terms.items())
        want = sum(U.embed(h2, [a, b], L) for a, b in pairs) + sum(U.embed(h1, [i], L) for i in range(L))
        rec["dqsum"] = int(qdiff(got, want, 1e-10))
        for key, h in ham.terms.items():
            g = U.snap_garr(h)
            if g is None:
                rec["ongrid"] = False
                g = []
            rec["terms"].append({"sites": [int(key[0]), int(key[1])], "m": g})
    except Exception as ex:  # noqa
        rec["exc"] = type(ex).__name__
        rec["ongrid"] = False
    return rec


def hamq_case(rng, k):
    """random float Hamiltonians on longer chains: numpy sum of embedded terms vs supplied"""
    L = int(rng.integers(2, 7))
    cyclic = bool(L > 2 and rng.random() < 0.5)
    exc, dq = "", 0
    try:
        ham, H2, H1 = make_chain(rng, L, cyclic)
        got = sum(U.embed(h, list(key), L) for key, h in ham.terms.items())
        dq = qdiff(got, dense_ham(H2, H1, L), 1e-10)
    except Exception as ex:  # noqa
        exc = type(ex).__name__
    return {"ev": "hamq", "tid": 510000 + k, "L": L, "cyc": cyclic, "exc": exc, "dq": int(dq)}


# ----------------------------------------------------------------------------- expm cache

def expm_case(rng, k):
    """get_gate_expm must be the exponential of the *current* term, also after apply_to_arrays"""
    import quimb.tensor as qtn

    recs = []
    kind = ["1d", "gen", "1d-h1"][k % 3]
    n = int(rng.integers(3, 6))
    try:
        if kind == "gen":
            ham = qtn.LocalHamGen({(i, i + 1): U.rand_herm(rng, 4) for i in range(n - 1)})
        elif kind == "1d":
            ham = qtn.LocalHam1D(n, H2={(i, i + 1): U.rand_herm(rng, 4) for i in range(n - 1)})
        else:
            ham = qtn.LocalHam1D(n, H2=U.rand_herm(rng, 4), H1=U.rand_herm(rng, 2), cyclic=bool(rng.random() < 0.5))
    except Exception as ex:  # noqa
        return [{"ev": "expm", "tid": 520000 + k, "exc": type(ex).__name__, "dqs": [], "after_apply": False, "kind": kind}]
    xs = [-0.5, -0.25j, 0.3 - 0.1j, 0.5j, 0.25]     # equal magnitudes, different phases: distinct cache entries

    def probe(stage, after):
        exc, dqs = "", []
        try:
            for key in list(ham.terms):
                for x in xs:
                    got = ham.get_gate_expm(key, x)
                    dqs.append(int(qdiff(got, sla.expm(x * np.asarray(ham.terms[key])), 1e-9)))
        except Exception as ex:  # noqa
            exc = type(ex).__name__
        recs.append({"ev": "expm", "tid": 520000 + k, "exc": exc, "dqs": dqs, "after_apply": after, "stage": stage, "kind": kind})

    probe("fresh", False)
    probe("cached", False)
    fns = [lambda x: 2 * x, lambda x: x + 0.5 * np.eye(x.shape[0]), lambda x: np.asarray(x).conj() * 1.5]
    for j in range(2):
        try:
            ham.apply_to_arrays(fns[int(rng.integers(len(fns)))])
        except Exception as ex:  # noqa
            recs.append({"ev": "expm", "tid": 520000 + k, "exc": type(ex).__name__, "dqs": [], "after_apply": True, "stage": "apply", "kind": kind})
            break
        gc.collect()
        probe("after-apply-%d" % (j + 1), True)
    return recs


# ----------------------------------------------------------------------------- convergence order

def _ratio_q(a, b):
    """100 * a / b as a capped integer (b > 0)"""
    if not (np.isfinite(a) and np.isfinite(b)) or b <= 0:
        return 0
    return int(min(100.0 * a / b, 10 ** 7))


def conv_case(rng, k, L, cyclic, order, imag=False, chain_kw=None):
    """error of TEBD against exact evolution with the *supplied* Hamiltonian at n, 2n, 4n steps.
    Parameters sit in the asymptotic regime (measured ratios 1.9-2.1 / 3.9-4.2 / 15.5-16.5 against
    thresholds 1.4 / 2.8 / 11.2) and far above the floating point floor."""
    import quimb.tensor as qtn

    rec = {"ev": "conv", "tid": 530000 + k, "L": L, "cyc": bool(cyclic), "order": order, "imag": bool(imag),
           "symmetric_splitting": not (cyclic and L % 2 == 1), "exc": "", "above_floor": False, "r1": 0, "r2": 0}
    try:
        ham, H2, H1 = make_chain(rng, L, cyclic, scale=0.6, h1scale=0.4, **(chain_kw or {"spelled": bool(k % 2)}))
        Hd = dense_ham(H2, H1, L)
        psi0 = qtn.MPS_rand_state(L, 1 if cyclic else 2, cyclic=cyclic, dtype="complex128", seed=int(rng.integers(1 << 30)))
        p0 = U.dense_state(psi0, L)
        if cyclic:
            Tt = 0.25
            ns = (1, 2, 4) if order == 1 else (1, 2)
            split = {"cutoff": 0.0}
        else:
            Tt = 1.0
            ns = (4, 8, 16)
            split = {"cutoff": 0.0}
        exact = sla.expm((-Tt if imag else -1j * Tt) * Hd) @ p0
        if imag:
            exact = exact / np.linalg.norm(exact)
        errs = []
        for n in ns:
            tebd = qtn.TEBD(psi0, ham, dt=Tt / n, split_opts=dict(split), progbar=False, imag=imag)
            tebd.update_to(Tt, order=order, progbar=False)
            errs.append(float(np.linalg.norm(U.dense_state(tebd.pt, L) - exact)))
        rec["errs_e12"] = [int(min(e * 1e12, 2 ** 30)) for e in errs]
        rec["above_floor"] = bool(min(errs) > 1e-10)
        rec["r1"] = _ratio_q(errs[0], errs[1])
        rec["r2"] = _ratio_q(errs[1], errs[2]) if len(errs) > 2 else rec["r1"]
    except Exception as ex:  # noqa
        rec["exc"] = type(ex).__name__
    return rec


# ----------------------------------------------------------------------------- arbitrary geometry

GRAPHS = {
    "triangle-tail": [(0, 1), (1, 2), (0, 2), (2, 3)],
    "star": [(0, 1), (0, 2), (0, 3)],
    "square": [(0, 1), (1, 2), (2, 3), (0, 3)],
    "path5": [(0, 1), (1, 2), (2, 3), (3, 4)],
}


def _gen_ham(rng, edges, scale=0.6):
    import quimb.tensor as qtn

    n = 1 + max(max(e) for e in edges)
    H2 = {e: U.rand_herm(rng, 4, True, scale) for e in edges}
    H1 = {i: U.rand_herm(rng, 2, True, 0.4) for i in range(n)}
    return qtn.LocalHamGen(H2=H2, H1=H1), H2, H1, n


def trot_case(rng, k):
    """LocalHamGen.get_trotter_gates: bookkeeping of layers / fractions and the gates themselves"""
    name = list(GRAPHS)[k % len(GRAPHS)]
    edges = GRAPHS[name]
    order = [1, 2, 4][(k // len(GRAPHS)) % 3]
    steps = int(rng.integers(1, 4))
    fuse = bool(rng.random() < 0.6)
    alt = bool(rng.random() < 0.5)
    if k < 12:
        steps, fuse = 1 + (k % 3), bool(k % 2 == 0)      # fixed mix in every quick run
    x = [-0.125, -0.25j, -0.0625j][int(rng.integers(3))]
    rec = {"ev": "trot", "tid": 540000 + k, "graph": name, "order": order, "steps": steps, "fuse": fuse, "alt": alt,
           "exc": "", "ongrid": True, "gates": [], "pairs": [], "dg": 0}
    try:
        ham, H2, H1, n = _gen_ham(rng, edges)
        pairs = [tuple(p) for p in ham.terms]
        rec["pairs"] = [[int(a), int(b)] for a, b in pairs]
        gates = ham.get_trotter_gates(x, order=order, steps=steps, fuse_adjacent=fuse, alternate=alt)
        worst = 0
        for g in gates:
            pq = U.snap_coef(float(g.frac), 1.0)      # fraction = (p + q s)/2
            w = pairs.index(tuple(sorted(g.where)))
            if pq is None:
                rec["ongrid"] = False
                pq = (0, 0)
            rec["gates"].append([int(g.layer), w, pq[0], pq[1]])
            ref = sla.expm(U.coef_value(pq[0], pq[1], 1.0) * x * U.oriented_term(ham.terms, tuple(g.where)))
            worst = max(worst, qdiff(g.U, ref, 1e-9))
        rec["dg"] = int(worst)
    except Exception as ex:  # noqa
        rec["exc"] = type(ex).__name__
    return rec


def genconv_case(rng, k):
    """the product of the gates of get_trotter_gates converges to expm(xH) at the stated order"""
    name = list(GRAPHS)[k % len(GRAPHS)]
    edges = GRAPHS[name]
    order = [1, 2, 4][(k // len(GRAPHS)) % 3]
    rec = {"ev": "conv", "tid": 550000 + k, "L": 0, "cyc": False, "order": order, "imag": False, "graph": name,
           "symmetric_splitting": True, "exc": "", "above_floor": False, "r1": 0, "r2": 0}
    try:
        ham, H2, H1, n = _gen_ham(rng, edges, 0.5)
        Hd = sum(U.embed(h, list(e), n) for e, h in H2.items()) + sum(U.embed(h, [i], n) for i, h in H1.items())
        Tt = 1.0
        exact = sla.expm(-1j * Tt * Hd)
        errs = []
        for m in (4, 8, 16):
            V = np.eye(2 ** n, dtype=complex)
            for Ug, where in ham.get_trotter_gates(-1j * Tt / m, order=order, steps=m):
                V = U.embed(Ug, list(where), n) @ V
            errs.append(float(np.linalg.norm(V - exact, 2)))
        rec["errs_e12"] = [int(min(e * 1e12, 2 ** 30)) for e in errs]
        rec["above_floor"] = bool(min(errs) > 1e-10)
        rec["r1"] = _ratio_q(errs[0], errs[1])
        rec["r2"] = _ratio_q(errs[1], errs[2])
    except Exception as ex:  # noqa
        rec["exc"] = type(ex).__name__
    return rec


def tgen_case(rng, k):
    """TEBDGen.evolve (imaginary time, untruncated) is the product of the exponentials of the terms"""
    import quimb.tensor as qtn

    name = ["star", "path5", "square"][k % 3]
    edges = GRAPHS[name]
    reflect = bool(k % 2)
    steps = int(rng.integers(1, 4))
    if name == "square" and reflect:
        steps = min(steps, 2)     # a loop has no canonical form: every gate doubles its bond, stay below D = 64
    tau = 0.125
    rec = {"ev": "tgen", "tid": 560000 + k, "graph": name, "reflect": reflect, "steps": steps, "exc": "", "dq": 0}
    try:
        ham, H2, H1, n = _gen_ham(rng, edges)
        psi0 = qtn.TN_from_edges_rand(edges, D=2, phys_dim=2, seed=int(rng.integers(1 << 30)), dtype="complex128")
        ordering = sorted(ham.terms)
        tebd = qtn.TEBDGen(psi0, ham, tau=tau, D=64, cutoff=0.0, imag=True, ordering=ordering,
                           second_order_reflect=reflect, compute_energy_final=False, progbar=False)
        ref = np.asarray(psi0.to_dense([psi0.site_ind(i) for i in range(n)])).reshape(-1)
        tebd.evolve(steps, progbar=False)
        seq = list(ordering) + (list(reversed(ordering)) if reflect else [])
        f = 2.0 if reflect else 1.0
        for _ in range(steps):
            for where in seq:
                ref = U.apply_local(ref, sla.expm(-tau / f * np.asarray(ham.terms[where])), list(where), n)
        st = tebd.state
        got = np.asarray(st.to_dense([st.site_ind(i) for i in range(n)])).reshape(-1)
        rec["dq"] = int(qdiff(got / np.linalg.norm(got), ref / np.linalg.norm(ref), 1e-8))
    except Exception as ex:  # noqa
        rec["exc"] = type(ex).__name__
    return rec


def su_case(rng, k):
    """SimpleUpdateGen (update = sequential / parallel) and TEBDGen, untruncated (bonds saturated), on chains and
    a star, for grouped / sequential / reversed / random bond orderings: every applied gate and layer boundary is
    logged; the state must be the product of the applied gates, gates of one parallel layer must be disjoint"""
    import quimb.tensor as qtn

    shapes = ["path4", "path5", "star", "path4", "path5", "path6"]
    shape = shapes[k % len(shapes)]
    update = ["parallel", "sequential"][(k // len(shapes)) % 2] if k % 7 else "tebdgen"
    okind = ["sequential", "grouped", "reversed", "random", "sort"][(k // 2) % 5]
    nsweeps = int(rng.integers(1, 4))
    tau = 0.25
    rec = {"ev": "su", "tid": 570000 + k, "shape": shape, "update": update, "ordering": okind, "nsweeps": nsweeps,
           "exc": "", "gates": [], "npairs": 0, "dg": 0, "dq": 0}
    try:
        if shape == "star":
            edges = [(0, 1), (0, 2), (0, 3)]
            n = 4
            psi0 = qtn.TN_from_edges_rand(edges, D=2, phys_dim=2, seed=int(rng.integers(1 << 30)))
        else:
            n = int(shape[-1])
            edges = [(i, i + 1) for i in range(n - 1)]
            psi0 = qtn.MPS_rand_state(n, bond_dim=2 ** (n // 2), seed=int(rng.integers(1 << 30)))
        terms = {e: U.rand_herm(rng, 4, False, 1.0) for e in edges}
        ham = qtn.LocalHamGen(terms)
        pairs = sorted(ham.terms)
        rec["npairs"] = len(pairs)
        if okind == "sequential":
            ordering = list(pairs)
        elif okind == "reversed":
            ordering = list(reversed(pairs))
        elif okind == "grouped":
            ordering = [p for p in pairs if p[0] % 2 == 0] + [p for p in pairs if p[0] % 2 == 1]
        elif okind == "random":
            ordering = [pairs[i] for i in rng.permutation(len(pairs))]
        else:
            ordering = "sort"
        D = psi0.max_bond()
        v0 = np.asarray(psi0.to_dense([psi0.site_ind(i) for i in range(n)])).reshape(-1)
        if update == "tebdgen":
            cls = qtn.TEBDGen
            # (no gauges: the local split is not the state's Schmidt decomposition, so leave room instead of D)
            obj = cls(psi0, ham, tau=tau, D=64, cutoff=0.0, imag=True, ordering=ordering,
                      compute_energy_final=False, progbar=False)
        else:
            cls = qtn.SimpleUpdateGen
            obj = cls(psi0, ham, tau=tau, D=D, cutoff=0.0, gauge_smudge=1e-14, ordering=ordering, update=update,
                      compute_energy_final=False, progbar=False)
        log = []
        with U.recording_su(cls, log):
            obj.evolve(nsweeps, tau=tau, progbar=False)
        ref = v0
        layer, worst = 0, 0
        for e in log:
            if e[0] == "postlayer":
                layer += 1
                continue
            _, where, G = e
            w = pairs.index(tuple(sorted(where)))
            rec["gates"].append([layer, w, int(where[0]), int(where[1])])
            worst = max(worst, qdiff(G, sla.expm(-tau * U.oriented_term(ham.terms, where)), 1e-9))
            ref = U.apply_local(ref, G, list(where), n)
        rec["dg"] = int(worst)
        st = obj.state
        got = np.asarray(st.to_dense([st.site_ind(i) for i in range(n)])).reshape(-1)
        # direction only (simple update normalises, TEBDGen does not); fix the global sign/phase by the overlap
        got, ref = got / np.linalg.norm(got), ref / np.linalg.norm(ref)
        rec["dq"] = int(qdiff(abs(np.vdot(ref, got)), 1.0, 1e-9))
    except Exception as ex:  # noqa
        rec["exc"] = type(ex).__name__
    return rec


# ----------------------------------------------------------------------------- run

MAIN_ACTIONS = ("UpdateTo", "AtTimes", "Step")
CLAUSES = ["Returns", "BackwardsRejectedCleanly", "GatesOnGrid", "LayersComplete", "ProductFormula", "ClassSums",
           "StepsWithinDt", "Symmetric", "TimeExact", "QueueDrained", "AtTimesYields", "GateIsExpmOfTerm",
           "DenseEqualsProduct", "NormPreserved", "ImagNormalised", "HamSumExact", "TermKeysSorted",
           "HamSum", "ExpmOfCurrentTerm", "ConvergenceMeasurable", "ConvergenceOrder", "TermFractions",
           "LayersCommute", "LayerUniform", "ParallelLayerDisjoint", "SweepAppliesEveryTerm",
           "model: TimeExact QueueDrained ProductFormula ClassSumsOK StepsWithinDt Symmetric ImagNormalised "
           "WrapOriented TotalSums + ASSUME ChainOK GatesRoundTrip"]


def split_behaviours(vals):
    out = []
    for v in vals:
        if isinstance(v, list) and v and all(isinstance(e, dict) and "call" in e for e in v):
            out.append(v)
    return out


def run(ctx):
    quick = ctx.tier == "quick"
    seed = ctx.seed
    rng = np.random.default_rng(1000 + seed)

    # 1. TLC: every history of public calls of the implementation-shaped model satisfies the property level
    #    (queue=True of step()/sweep() is public; changing _dt while a sweep is queued is the named deviation KF-C11-2)
    ctx.model_check("MC_C11", "MC_quick.cfg" if quick else "MC_thorough.cfg", name="tebd-histories",
                    require_actions=MAIN_ACTIONS, env=TLC_ENV, timeout=1500)
    if not quick:
        ctx.model_check("MC_C11", "MC_thorough_ts.cfg", name="tebd-histories-at_times<=3", require_actions=MAIN_ACTIONS,
                        env=TLC_ENV, timeout=1500)
        ctx.model_check("MC_C11", "MC_sweeps.cfg", name="tebd-histories-with-direct-sweeps",
                        require_actions=MAIN_ACTIONS + ("Sweep",), env=TLC_ENV, timeout=1500)
        ctx.model_check("MC_C11", "MC_pubqueue_fix.cfg", name="dt-change-while-queued-with-proposed-repair",
                        require_actions=MAIN_ACTIONS, env=TLC_ENV, timeout=1500)
    selftests = (("MC_branches.cfg", "NotAllBranches", "all five branches of sweep's queue logic are reached"),
                 ("MC_imagsite.cfg", "ImagNormalised", "pre-fix 7f3de1c3: left sweep renormalises site 1, order 1 ends unnormalised"),
                 ("MC_wrap.cfg", "WrapOriented", "pre-fix b5edf86a: wrap-around gate applied with its legs exchanged"),
                 ("MC_pubqueue.cfg", "ProductFormula", "KF-C11-2: step(queue=True) followed by update_to with another dt mis-scales the queued sweep"))
    for cfg, inv, what in selftests:
        r = T.run_tlc("MC_C11", cfg, ctx.spec_dir, workers=4, allow_violation=True, scratch=ctx.scratch, timeout=600, env=TLC_ENV)
        if r.violated != inv:
            raise MachineryError("model self-test %s: expected %s to be violated, got %r" % (cfg, inv, r.violated))
        ctx.extra.setdefault("model_selftests", []).append("%s: TLC finds a %s counterexample (%s)" % (cfg, inv, what))

    recs = []
    ntr = 0

    # 2. S->C: call sequences simulated by TLC, replayed on real TEBD objects
    nsim = 40 if quick else 400
    res = T.run_tlc("MC_C11", "MC_sim.cfg", ctx.spec_dir, workers=1, coverage=False, simulate="num=%d" % nsim,
                    depth=5, seed=11 + seed, scratch=ctx.scratch, timeout=900, env=TLC_ENV)
    behs = split_behaviours(T.parse_printed_json(res.output))
    if len(behs) < nsim // 2:
        raise MachineryError("could not read the simulated behaviours back (%d of %d)" % (len(behs), nsim))
    srecs = []
    for k, b in enumerate(behs):
        srecs += replay_behaviour(b, 7000 + 97 * seed + k, k)
    ctx.sample({"replayed_behaviour": [dict(e["call"]["args"], op=e["call"]["op"]) for e in behs[0]]})
    ctx.extra["replayed_behaviours"] = len(behs)
    fails = []

    # 3. C->S: random histories
    nh = 90 if quick else 1200
    hrecs = []
    for k in range(nh):
        hrecs += random_history(100000 * (seed + 1) + k, 100000 + k, quick)
    for j, sc in enumerate(SCRIPTS):
        hrecs += scripted_history(300000 + 31 * seed + j, 300000 + j, sc)
    nh += len(SCRIPTS)
    ctx.sample({"history": [{kk: vv for kk, vv in r.items() if kk not in ("gates",)} for r in hrecs[:3]]})
    ctx.extra["history_calls"] = sum(1 for r in hrecs + srecs if r["ev"] == "call")
    ctx.extra["gates_recorded"] = sum(len(r.get("gates", [])) for r in hrecs + srecs)
    ctx.extra["dense_comparisons"] = sum(1 for r in hrecs + srecs if r.get("dense"))

    # 4. Hamiltonian objects, expm cache, convergence, arbitrary geometry
    orecs = []
    for k in range(24 if quick else 240):
        orecs.append(ham_case(rng, k))
    for k in range(6 if quick else 24):
        orecs.append(ham_default_only(rng, k))
    for k in range(20 if quick else 200):
        orecs.append(hamq_case(rng, k))
    for k in range(9 if quick else 90):
        orecs += expm_case(rng, k)
    conv = []
    k = 0
    reps = 1 if quick else 4
    for rep in range(reps):
        for L in ((3, 4, 5) if quick else (3, 4, 5, 6)):     # (two sites: a single bond, no splitting error at all)
            for order in (1, 2, 4):
                conv.append(conv_case(rng, k, L, False, order)); k += 1
        for L in (3, 4) if quick else (3, 4, 5):
            for order in (1, 2):
                if order == 2 and L % 2 == 1:
                    # odd ring: the even class does not commute with itself, so merging two half sweeps (or not)
                    # changes the product at first order; the 1 -> 2 step ratio is then not far from the
                    # threshold (1.3 - 2.1 for equally valid schedules): only the order 1 request is measured
                    continue
                conv.append(conv_case(rng, k, L, True, order)); k += 1
        for L, order in ((4, 1), (3, 2)) if quick else ((4, 1), (3, 2), (5, 2), (4, 4)):
            conv.append(conv_case(rng, k, L, False, order, imag=True)); k += 1
        # rings with a non exchange symmetric DEFAULT boundary term, one per spelling family
        for L, order, kw in ((4, 2, {"spelled": "array", "h1": "array"}), (3, 1, {"spelled": "none-key"}),
                             (4, 1, {"spelled": True, "wrap_default": True})):
            conv.append(conv_case(rng, k, L, True, order, chain_kw=kw)); k += 1
    orecs += conv
    for k in range(12 if quick else 120):
        orecs.append(trot_case(rng, k))
    for k in range(6 if quick else 36):
        orecs.append(genconv_case(rng, k))
    for k in range(6 if quick else 48):
        orecs.append(tgen_case(rng, k))
    for k in range(28 if quick else 280):
        orecs.append(su_case(rng, k))
    ctx.sample({"conv": [{kk: r[kk] for kk in ("L", "cyc", "order", "imag", "r1", "r2")} for r in conv[:8]]})
    # one TLC start per 4000 records (trace ids: replays 0.., histories 100000.., objects 500000..)
    fails += ctx.validate("C11_Trace", "Trace.cfg", srecs + hrecs + orecs, name="replay+history+objects",
                          ntraces=len(behs) + nh + len({r["tid"] for r in orecs}), env=TLC_ENV, chunk=4000)
    ctx.extra["min_ratio_x100_by_required_order"] = {
        str(p): min([min(r["r1"], r["r2"]) for r in orecs if r["ev"] == "conv" and not r["exc"]
                     and (r["order"] if r["symmetric_splitting"] else 1) == p] or [0]) for p in (1, 2, 4)}

    notes = [f for f in fails if f["clause"].startswith("NOTE:")]
    for n in notes[:10]:
        ctx.notes.append("%s at tid %s op %s" % (n["clause"], n["record"].get("tid"), n["record"].get("op")))
    ctx.extra["model_drift_records"] = len(notes)
    ctx.clauses.update(CLAUSES)
    ctx.assumptions += [
        "times are whole grains (1/16 or 1/64); coefficients are snapped onto (p + q s)/2 grains with tolerance 2e-7 (unique: |q s - p| >= 1.3e-4 for |q| <= 5000)",
        "public calls are update_to / at_times / step(order, dt, queue) / sweep(direction, frac, dt, queue); with queue=True the product formula is judged on segments (everything since the queue was last empty)",
        "changing _dt through update_to / at_times while a sweep is queued is the recorded finding KF-C11-2 (input flag dtchange_queued)",
        "update_to(T < t) is a documented rejection (NotImplementedError) and must leave the object untouched",
        "untruncated comparison on periodic chains only for the first %d sweeps (no canonical form: bonds double every sweep)" % CYC_SWEEPS,
        "convergence: quantised error ratios at n, 2n, 4n steps must be >= 0.7 * 2^order (order 1 on odd periodic chains)",
        "L = 2 periodic chains are outside the domain (both bonds join the same pair)",
    ]
    for f in fails:
        if len(str(f["record"])) > 20000:
            f["record"] = {k: v for k, v in f["record"].items() if k != "gates"}
    ctx.judge([f for f in fails if not f["clause"].startswith("NOTE:")])
