"""Entry point: ./check <Cxx> <quick|thorough> [--replay <path>]"""

import importlib
import json
import os
import sys

from .ctx import main_run


def main(argv):
    if len(argv) < 1:
        print(__doc__)
        return 2
    pid = argv[0].upper()
    tier = os.environ.get("VERIF_TIER") or (argv[1] if len(argv) > 1 and not argv[1].startswith("--") else "quick")
    if len(argv) > 1 and argv[1] in ("quick", "thorough"):
        tier = argv[1]
    seed = int(os.environ.get("VERIF_SEED", "0") or 0)
    if "--replay" in argv:
        path = argv[argv.index("--replay") + 1]
        with open(path) as f:
            rep = json.load(f)
        mod = importlib.import_module("qv.props." + pid.lower())
        if hasattr(mod, "replay"):
            return main_run(pid, tier, seed, lambda ctx: mod.replay(ctx, rep), no_evidence=True)
        from .ctx import generic_replay
        return main_run(pid, tier, seed, lambda ctx: generic_replay(ctx, rep), no_evidence=True)
    mod = importlib.import_module("qv.props." + pid.lower())
    return main_run(pid, tier, seed, mod.run)


if __name__ == "__main__":
    sys.exit(main(sys.argv[1:]))
