"""Snapping floats produced by quimb onto exact lattices, and quantising
relations between floats, so that TLC (which has only 32-bit integers) can judge them."""

import math

import numpy as np

OFFGRID = "OFFGRID"
BIG = 2 ** 30


def tol_for(dtype):
    dt = np.dtype(dtype) if dtype is not None else np.dtype("float64")
    return 2e-4 if dt in (np.dtype("float32"), np.dtype("complex64")) else 1e-8


def snap_int(x, tol=1e-8, scale=1.0):
    """float -> int if within tol*(1+|x|) of an integer (after multiplying by scale), else OFFGRID."""
    try:
        x = complex(x)
    except Exception:
        return OFFGRID
    if abs(x.imag) > tol * (1 + abs(x)):
        return OFFGRID
    v = x.real * scale
    if not math.isfinite(v):
        return OFFGRID
    r = round(v)
    if abs(v - r) > tol * (1 + abs(v)) or abs(r) >= BIG:
        return OFFGRID
    return int(r)


def snap_gint(x, tol=1e-8, scale=1.0):
    """complex -> [re, im] ints or OFFGRID."""
    try:
        x = complex(x) * scale
    except Exception:
        return OFFGRID
    if not (math.isfinite(x.real) and math.isfinite(x.imag)):
        return OFFGRID
    re, im = round(x.real), round(x.imag)
    t = tol * (1 + abs(x))
    if abs(x.real - re) > t or abs(x.imag - im) > t or abs(re) >= BIG or abs(im) >= BIG:
        return OFFGRID
    return [int(re), int(im)]


def snap_garray(a, tol=1e-8, scale=1.0):
    """array -> flat (C order) list of [re, im]; OFFGRID if any entry is off the lattice."""
    a = np.asarray(a)
    out = []
    for x in a.reshape(-1):
        s = snap_gint(x, tol, scale)
        if s == OFFGRID:
            return OFFGRID
        out.append(s)
    return out


def snap_iarray(a, tol=1e-8, scale=1.0):
    a = np.asarray(a)
    out = []
    for x in a.reshape(-1):
        s = snap_int(x, tol, scale)
        if s == OFFGRID:
            return OFFGRID
        out.append(s)
    return out


def qdiff(a, b, tol):
    """Quantised distance between two float arrays/scalars in units of tol*(1+scale):
    0 means equal within tolerance; TLC requires `<= 0`... callers log the integer and
    the spec demands it to be 0.  Capped so it fits TLC's integers."""
    a = np.asarray(a, dtype=complex)
    b = np.asarray(b, dtype=complex)
    if a.shape != b.shape:
        return 999999
    if a.size == 0:
        return 0
    if not (np.all(np.isfinite(a)) and np.all(np.isfinite(b))):
        return 999998
    scale = max(1.0, float(np.max(np.abs(a))), float(np.max(np.abs(b))))
    d = float(np.max(np.abs(a - b))) / (tol * scale)
    return int(min(d, 999997))


def gint_to_complex(g):
    return complex(g[0], g[1])
