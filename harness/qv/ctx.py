"""Per-run context: collects TLC runs, validated traces, verdicts; writes evidence.

Rule of the whole framework (DESIGN.md 2.3): Python *observes* quimb and writes
ndjson traces; TLC *judges* them against the property-level specification.  A
VIOLATION line is only ever printed for a clause that TLC evaluated to FALSE on
an observation of the real code.
"""

import json
import os
import shutil
import sys
import tempfile
import time
import traceback

from . import tlc as T

VERIF = T.VERIF


class MachineryError(RuntimeError):
    pass


def _get(d, path):
    cur = d
    for k in path.split("."):
        if isinstance(cur, dict) and k in cur:
            cur = cur[k]
        elif isinstance(cur, (list, tuple)) and k.isdigit() and int(k) < len(cur):
            cur = cur[int(k)]
        else:
            return None
    return cur


class Ctx:
    def __init__(self, pid, tier, seed):
        self.pid = pid
        self.tier = tier
        self.seed = seed
        self.t0 = time.time()
        self.scratch = tempfile.mkdtemp(prefix="qv-%s-" % pid)
        self.spec_dir = os.path.join(T.SPEC, pid)
        self.mc = []  # model checking runs
        self.tv = []  # trace validation runs
        self.traces = 0
        self.lines = 0
        self.samples = []
        self.violations = []
        self.known = []
        self.notes = []
        self.assumptions = []
        self.clauses = set()
        self.extra = {}
        self.events = {}
        self.exhaustive = True
        self._kf = self._load_findings()
        self._nrep = 0
        # replays of an earlier run with the same (property, tier, seed) are stale
        import glob
        for old in glob.glob(os.path.join(VERIF, "replays", "%s-%s-%d-*.json" % (pid, tier, seed))):
            try:
                os.remove(old)
            except OSError:
                pass

    # ------------------------------------------------------------------ TLC
    def model_check(self, module, cfg, name=None, require_actions=(), **kw):
        kw.setdefault("workers", 16 if self.tier == "thorough" else 8)
        kw.setdefault("coverage", True)
        res = T.run_tlc(module, cfg, self.spec_dir, scratch=self.scratch, **kw)
        d = res.as_dict()
        d["name"] = name or ("%s/%s" % (module, cfg))
        d["coverage"] = {k: list(v) for k, v in res.coverage.items()}
        self.mc.append(d)
        never = [a for a in require_actions if res.coverage.get(a, (0, 0))[1] == 0]
        if never:
            raise MachineryError("vacuous model run %s: actions never taken: %s" % (d["name"], never))
        return res

    @staticmethod
    def _sanitize(x):
        """TLC's JSON reader knows ints, strings, booleans, arrays and objects only"""
        if x is None:
            return "null"
        if isinstance(x, bool) or isinstance(x, int) or isinstance(x, str):
            return x
        if isinstance(x, float):
            return int(x) if x == int(x) and abs(x) < 2 ** 31 else repr(x)
        if isinstance(x, dict):
            return {str(k): Ctx._sanitize(v) for k, v in x.items()}
        if isinstance(x, (list, tuple)):
            return [Ctx._sanitize(v) for v in x]
        return str(x)

    def write_trace(self, records, name):
        path = os.path.join(self.scratch, name + ".ndjson")
        with open(path, "w") as f:
            for r in records:
                f.write(json.dumps(self._sanitize(r), separators=(",", ":")) + "\n")
        return path

    def validate(self, module, cfg, records, name="trace", ntraces=None, env=None, timeout=3000, chunk=20000):
        """Validate a list of trace records with the Trace spec `module`.
        Returns the list of failures, each joined with the offending record."""
        fails = []
        if not records:
            return fails
        # chunk on trace boundaries (records with the same tid stay together)
        chunks, cur = [], []
        last_tid = object()
        for r in records:
            tid = r.get("tid")
            if len(cur) >= chunk and tid != last_tid:
                chunks.append(cur)
                cur = []
            cur.append(r)
            last_tid = tid
        if cur:
            chunks.append(cur)
        for ci, ch in enumerate(chunks):
            path = self.write_trace(ch, "%s-%d" % (name, ci))
            verdict, res = T.validate_trace(module, cfg, self.spec_dir, path, env=env, timeout=timeout, scratch=self.scratch)
            self.tv.append({"name": "%s[%d]" % (name, ci), "module": module, "lines": len(ch),
                            "states": res.distinct, "wall_s": round(res.wall, 2)})
            for f in verdict["fails"]:
                rec = ch[f["line"] - 1]
                # the records of the same trace up to the failing one (what a replay needs), capped
                lo = f["line"] - 1
                while lo > 0 and ch[lo - 1].get("tid") == rec.get("tid") and f["line"] - lo < 60:
                    lo -= 1
                fails.append({"clause": f["clause"], "detail": {k: v for k, v in f.items() if k not in ("line", "clause")},
                              "record": rec, "trace": name, "module": module, "cfg": cfg, "prefix": ch[lo:f["line"]]})
            for c in verdict.get("clauses", []):
                self.clauses.add(c)
        self.lines += len(records)
        tids = {r.get("tid") for r in records}
        self.traces += ntraces if ntraces is not None else len(tids)
        for r in records:
            ev = r.get("ev", "?")
            self.events[ev] = self.events.get(ev, 0) + 1
        return fails

    # ------------------------------------------------------------- verdicts
    def _load_findings(self):
        import glob
        out = []
        paths = [os.path.join(VERIF, "known_findings.json")] + sorted(glob.glob(os.path.join(VERIF, "known_findings.d", "*.json")))
        for p in paths:
            if not os.path.exists(p):
                continue
            with open(p) as f:
                data = json.load(f)
            out += [e for e in data.get("entries", []) if e.get("property") == self.pid and e.get("status") == "finding"]
        return out

    def _match(self, fail):
        for e in self._kf:
            m = e.get("match", {})
            if m.get("clause") not in (None, fail["clause"]):
                continue
            ok = True
            for k, v in (m.get("where") or {}).items():
                got = _get(fail["record"], k)
                if isinstance(v, dict) and "in" in v:
                    if got not in v["in"]:
                        ok = False
                elif got != v:
                    ok = False
                if not ok:
                    break
            if ok:
                return e
        return None

    def judge(self, fails, context=None):
        """Turn TLC failures into KNOWN-FINDING / VIOLATION reports."""
        for f in fails:
            e = self._match(f)
            if e is not None:
                key = e.get("id") or e.get("what")
                if key not in [k["id"] for k in self.known]:
                    self.known.append({"id": key, "what": e.get("what", ""), "count": 1})
                else:
                    for k in self.known:
                        if k["id"] == key:
                            k["count"] += 1
                continue
            self._nrep += 1
            os.makedirs(os.path.join(VERIF, "replays"), exist_ok=True)
            rp = os.path.join(VERIF, "replays", "%s-%s-%d-%d.json" % (self.pid, self.tier, self.seed, self._nrep))
            if self._nrep <= 20:
                with open(rp, "w") as fh:
                    json.dump({"property": self.pid, "clause": f["clause"], "detail": f["detail"],
                               "record": f["record"], "trace": f.get("trace"), "context": context,
                               "module": f.get("module"), "cfg": f.get("cfg"),
                               "prefix": f.get("prefix") if len(str(f.get("prefix"))) < 400000 else None}, fh, indent=1, default=str)
            self.violations.append({"clause": f["clause"], "replay": rp, "record": f["record"]})

    def sample(self, x, cap=6):
        if len(self.samples) < cap:
            self.samples.append(x)

    # ------------------------------------------------------------- evidence
    def finish(self):
        wall = time.time() - self.t0
        states = sum(m["distinct"] for m in self.mc)
        trans = sum(m["generated"] for m in self.mc)
        cov = {
            "states": states,
            "transitions": trans,
            "traces_validated_against_impl": self.traces,
            "trace_lines_validated": self.lines,
            "samples": self.samples or [{"note": "no samples recorded"}],
            "model_runs": self.mc,
            "trace_runs": self.tv,
            "events": self.events,
            "clauses_evaluated": sorted(self.clauses),
            "exhaustive": False,
            "known_findings_seen": self.known,
            "notes": self.notes[:50],
        }
        summ = {}
        for v in self.violations:
            k = "%s|%s|%s" % (v["clause"], v["record"].get("ev"), v["record"].get("name", v["record"].get("op", "")))
            summ[k] = summ.get(k, 0) + 1
        cov["violation_summary"] = summ
        cov.update(self.extra)
        ev = {
            "property_id": self.pid,
            "tier": self.tier,
            "seed": self.seed,
            "level": "model_checking",
            "coverage": cov,
            "assumptions": self.assumptions,
            "wall_s": round(wall, 2),
            "violations": len(self.violations),
        }
        if not getattr(self, "no_evidence", False):      # (a --replay run does not overwrite the evidence file)
            os.makedirs(os.path.join(VERIF, "evidence"), exist_ok=True)
            with open(os.path.join(VERIF, "evidence", self.pid + ".json"), "w") as f:
                json.dump(ev, f, indent=1, default=str)
        for k in self.known:
            print("KNOWN-FINDING: property=%s %s (%d observations)" % (self.pid, k["what"], k["count"]))
        seen = set()
        for v in self.violations:
            key = (v["clause"], v["record"].get("ev"))
            if key in seen and len(seen) > 0 and len(self.violations) > 20:
                continue
            seen.add(key)
            print("VIOLATION property=%s replay=%s clause=%s ev=%s" % (self.pid, v["replay"], v["clause"], v["record"].get("ev")))
        print("%s %s: model states=%d transitions=%d, traces=%d lines=%d, violations=%d, known=%d, %.1fs" % (
            self.pid, self.tier, states, trans, self.traces, self.lines, len(self.violations), len(self.known), wall))
        shutil.rmtree(self.scratch, ignore_errors=True)
        return 1 if self.violations else 0


def generic_replay(ctx, rep):
    """Re-judge a saved violation: the recorded trace prefix is validated again by the TLC trace spec and the
    clauses that fail on its last record are reported (exit 1 if the saved clause still fails)."""
    pre = rep.get("prefix") or [rep["record"]]
    module, cfg = rep.get("module"), rep.get("cfg") or "Trace.cfg"
    if not module:
        print(json.dumps(rep["record"], indent=1)[:4000])
        return
    fails = ctx.validate(module, cfg, pre, name="replay", ntraces=1)
    last = [f for f in fails if f["record"] is pre[-1] or f["record"] == pre[-1]]
    print("replayed %d record(s) of trace %r through %s: clauses failing on the last record: %s" % (
        len(pre), rep.get("trace"), module, sorted({f["clause"] for f in last}) or "none"))
    ctx.judge([f for f in last if f["clause"] == rep["clause"]])


def main_run(pid, tier, seed, runner, no_evidence=False):
    ctx = Ctx(pid, tier, seed)
    ctx.no_evidence = no_evidence
    try:
        runner(ctx)
        return ctx.finish()
    except (T.TLCError, MachineryError) as ex:
        sys.stderr.write("MACHINERY FAILURE in %s: %s\n" % (pid, ex))
        shutil.rmtree(ctx.scratch, ignore_errors=True)
        return 2
    except Exception:
        traceback.print_exc()
        sys.stderr.write("MACHINERY FAILURE in %s (unexpected exception)\n" % pid)
        shutil.rmtree(ctx.scratch, ignore_errors=True)
        return 2
