#!/venv/bin/python
"""Run part of the repository's suite (guard off) and compare with BASELINE.json's stable_pass list.
usage: baseline_subset.py [-n WORKERS] <pytest paths...>     exit 0 iff every stable test selected passed"""
import json, os, subprocess, sys, tempfile
import xml.etree.ElementTree as ET

args = sys.argv[1:]
n = "6"
if args and args[0] == "-n":
    n = args[1]; args = args[2:]
stable = set(json.load(open("/root/.vp/BASELINE.json"))["stable_pass"])
out = tempfile.mktemp(suffix=".xml")
env = {k: v for k, v in os.environ.items() if k not in ("QUIMB_VERIF", "QV_REPO", "PYTHONPATH")}
cmd = ["/venv/bin/python", "-m", "pytest", "-q", "-p", "no:cacheprovider", "--timeout=900", "--continue-on-collection-errors",
       "-n", n, "--junitxml=" + out] + (args or [])
p = subprocess.run(cmd, cwd="/repo", env=env, capture_output=True, text=True)
passed, other = set(), {}
for tc in ET.parse(out).getroot().iter("testcase"):
    name = tc.get("classname") + "::" + tc.get("name")
    bad = [c.tag for c in tc if c.tag in ("failure", "error", "skipped")]
    if bad:
        other[name] = bad[0]
    else:
        passed.add(name)
os.remove(out)
files = {a.split("::")[0].replace("/", ".").removesuffix(".py") for a in args}
sel = {s for s in stable if any(s.startswith(f) for f in files)} if args else stable
missing = sorted(sel - passed)
print(p.stdout.strip().splitlines()[-1])
print("stable tests selected: %d, passed: %d, NOT passing: %d" % (len(sel), len(sel & passed), len(missing)))
for m in missing[:40]:
    print("  REGRESSION", m, other.get(m, "not run"))
sys.exit(1 if missing else 0)
