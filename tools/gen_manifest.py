#!/usr/bin/env python3
"""Regenerate /verif/MANIFEST.json from the table below (one entry per property whose check is built).
Properties without an entry are listed under not_applicable with the reason given in NOT_BUILT."""
import json
import os

HERE = os.path.dirname(os.path.dirname(os.path.abspath(__file__)))

BUILT = {
    "C01": dict(
        text="TLC explores the exponent/scale bookkeeping model of every contraction route and update exhaustively (invariants ValuePreserved, RouteExact); every observation of the real routes (~50 kinds: full/partial/structured/cumulative contraction, explicit paths, stripped exponents, densification, norm/overlap/trace with explicit output labels, linear operators with chained variants) on exact Gaussian-integer networks, MPS and MPO objects, including a tiny-amplitude family, is judged by the TLC trace spec, which recomputes the network's value with LTensor!Denote (the statement itself).",
        note="trusted: TLC, LTensor.tla (Denote written from the statement), numpy.einsum for densifying updated networks, snapping tolerance 1e-8 (double) / 2e-4 (single); scope: <= 4 tensors, <= 6 labels of size <= 3, exponents -2..2",
        technique="TLA+ model of exponent bookkeeping model-checked with TLC; TLC trace validation with an exact Denote oracle over recorded quimb contraction routes"),
    "C02": dict(
        text="TLC checks exhaustively (bounded depth) that the transcription of quimb's link/unlink/owner bookkeeping keeps all lookup maps equal to a fresh scan; TLC-simulated behaviours are replayed into real TensorNetwork objects (0 model drift) and seeded random walks over ~35 public operations, histories of ~47 gauging/simplification/compression rewrites and of ~85 MPS/MPO/PEPS methods (with up to three live overlapping networks) are judged clause by clause by the trace spec.",
        note="trusted: TLC, C02_Defs fresh-scan definitions, the driver's projection of public attributes; assumes a tensor object is held at most once per network and callers keep label sizes consistent",
        technique="TLA+ implementation-shaped state machine model-checked with TLC; replay of TLC behaviours into quimb and TLC trace validation of random API walks"),
    "C04": dict(
        text="TLC explores the life-cycle of the left_inds isometry claim, gauge balance on bonds and scale bookkeeping exhaustively (ClaimSound, GaugeBalanced); seeded compositions of ~50 representation-changing rewrites (gauging with full and partial gauge dictionaries, canonization, simplification passes with explicit and default outputs, untruncated compression, fusing, squeezing, hyper-index resolution) on eleven geometry classes of exact Gaussian-integer networks (hyper outputs on pairs and loops, labels repeated on one tensor, chains of diagonal tensors, all walked through systematically) are judged by the TLC trace spec, which compares the network densified after every rewrite with LTensor!Denote of the original and checks the promised forms; isometrize / unitize are probed for every method on scratch copies.",
        note="trusted: TLC, LTensor.tla, numpy.einsum densification and numpy isometry measurements; hyper-index networks only for rewrites documenting support; scope <= 6 tensors, bond sizes <= 3",
        technique="TLA+ claim/gauge bookkeeping model model-checked with TLC; TLC trace validation with an exact Denote oracle over recorded rewrite sequences"),
    "C16": dict(
        text="TLC explores every interleaving of the worker threads of a threaded kernel over the transcribed block arithmetic (every element written exactly once, nothing swallowed) and proves ExactCover of the transcription on a grid; C16_Pool models the single shared executor with nested submission (NoHang, Returns under fairness); the real partition functions on a large grid, every threaded kernel, par_reduce, the public sparse-product dispatch, nested parallel Kronecker reductions for 1-8 workers (child processes: a crash or a hang is an observation) and the parallel operator builders are judged against the serial answer by the TLC trace spec.",
        note="trusted: TLC, numpy serial references; real thread schedules are sampled by repetition, all schedules are explored in the model only",
        technique="TLA+ interleaving model, block-arithmetic transcription and shared-pool model model-checked with TLC (liveness under fairness); TLC trace validation of recorded partition outputs and kernel results"),
}

NOT_BUILT = "check still under construction in this round (see DESIGN.md section 4 for the planned TLA+ specification)"


def main():
    props = [json.loads(l) for l in open(os.path.join(HERE, "properties.jsonl"))]
    extra = {}
    p = os.path.join(HERE, "tools", "manifest_entries.json")
    if os.path.exists(p):
        extra = json.load(open(p))
    built = dict(BUILT)
    built.update(extra.get("built", {}))
    na = extra.get("not_applicable", {})
    m = {
        "version": 1,
        "setup_cmd": "cd /verif && ./setup.sh",
        "hooks": {
            "guard": "QUIMB_VERIF",
            "enable": "no source hooks in /repo: the recorder/drivers live in /verif/harness and observe quimb through its public API (a few monkeypatch wrappers installed by the drivers at run time); ./check sets QUIMB_VERIF=1 and PYTHONPATH=/verif/harness:/repo",
            "baseline_off_cmd": "cd /repo && env -u QUIMB_VERIF /venv/bin/python -m pytest -ra -q -p no:cacheprovider --timeout=900 --continue-on-collection-errors",
            "source_commits": [],
            "add_only": True,
        },
        "engines": [{
            "name": "qv", "path": "/verif/check", "serves_properties": sorted(built),
            "kind_free_text": "TLA+ specifications (spec/) model-checked with TLC; Python harness (harness/qv) replays TLC-generated cases/behaviours into quimb and records traces that TLC trace specifications judge",
        }],
        "checks": [],
        "notes": "Every verdict is a clause of a TLA+ specification evaluated by TLC on an observation of the real code; see DESIGN.md. Genuine defects found are in known_findings.json (fixed entries have fix: commits in /repo).",
        "not_applicable": [],
    }
    for pr in props:
        pid = pr["id"]
        if pid in built:
            b = built[pid]
            m["checks"].append({
                "property_id": pid,
                "quick_cmd": "./check %s quick" % pid,
                "thorough_cmd": "./check %s thorough" % pid,
                "evidence_file": "/verif/evidence/%s.json" % pid,
                "replay_cmd_template": "./check %s quick --replay {path}" % pid,
                "engine": "qv",
                "level_claimed": {"category": "model_checking", "text": b["text"], "design_ref": "DESIGN.md section 4, " + pid},
                "level_note": b["note"],
                "technique": b["technique"],
            })
        else:
            m["not_applicable"].append({"property_id": pid, "reason": na.get(pid, NOT_BUILT)})
    json.dump(m, open(os.path.join(HERE, "MANIFEST.json"), "w"), indent=1)
    print("checks:", [c["property_id"] for c in m["checks"]])


if __name__ == "__main__":
    main()
