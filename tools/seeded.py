#!/usr/bin/env python3
"""Confirm and run seeded changes.

  seeded.py import <dir> <name>     copy a mutant produced by a seeding agent (patch.diff, demo.py, meta.json)
                                    to /verif/seeded/<name>/ after confirming, in a scratch worktree of /repo:
                                    the demo passes on the clean tree and fails with the patch applied.
  seeded.py run [<name> ...] [--tier quick|thorough] [--seed N]   (--seed: VERIF_SEED for the check; result-seedN.json)
                                    apply each seeded patch to the scratch worktree, run the check of its
                                    property against it (QV_REPO), undo; record the outcome in
                                    /verif/seeded/<name>/result.json and print a table.
The scratch worktree lives under /tmp and is removed at the end.  /repo itself is never modified.
"""
import json
import os
import shutil
import subprocess
import sys
import time

VERIF = os.path.dirname(os.path.dirname(os.path.abspath(__file__)))
SEEDED = os.path.join(VERIF, "seeded")
WT = "/tmp/wt-seeded-%d" % os.getpid()


def sh(cmd, **kw):
    return subprocess.run(cmd, capture_output=True, text=True, **kw)


def make_wt():
    sh(["git", "-C", "/repo", "worktree", "add", "--detach", "-f", WT, "HEAD"])
    if not os.path.isdir(WT):
        raise SystemExit("cannot create worktree")


def drop_wt():
    sh(["git", "-C", "/repo", "worktree", "remove", "--force", WT])
    shutil.rmtree(WT, ignore_errors=True)
    sh(["git", "-C", "/repo", "worktree", "prune"])


def apply(patch):
    r = sh(["git", "-C", WT, "apply", "--whitespace=nowarn", patch])
    if r.returncode != 0:
        r = sh(["git", "-C", WT, "apply", "--3way", "--whitespace=nowarn", patch])
    return r.returncode == 0, r.stderr


def undo():
    # (a --3way apply stages its result: reset the index too, or a later `checkout -- .` restores the mutated file)
    sh(["git", "-C", WT, "reset", "-q", "--hard"])
    sh(["git", "-C", WT, "checkout", "--", "."])
    sh(["git", "-C", WT, "clean", "-fdq", "-e", "__pycache__"])


def run_demo(demo):
    env = dict(os.environ, PYTHONPATH=WT, QUIMB_NUM_THREAD_WORKERS=os.environ.get("QUIMB_NUM_THREAD_WORKERS", "4"))
    env.pop("QV_REPO", None)
    r = sh(["/venv/bin/python", demo], env=env, cwd=os.path.dirname(demo), timeout=1800)
    return r.returncode, (r.stdout + r.stderr)[-400:]


def cmd_import(src, name):
    make_wt()
    try:
        dst = os.path.join(SEEDED, name)
        patch, demo = os.path.join(src, "patch.diff"), os.path.join(src, "demo.py")
        meta = json.load(open(os.path.join(src, "meta.json")))
        rc0, out0 = run_demo(demo)
        ok, err = apply(patch)
        if not ok:
            print("PATCH DOES NOT APPLY", err)
            return 1
        rc1, out1 = run_demo(demo)
        undo()
        print("clean rc=%s, mutated rc=%s" % (rc0, rc1))
        if rc0 != 0 or rc1 == 0:
            print("NOT CONFIRMED: clean:", out0, "\nmutated:", out1)
            return 1
        os.makedirs(dst, exist_ok=True)
        shutil.copy(patch, os.path.join(dst, "patch.diff"))
        shutil.copy(demo, os.path.join(dst, "demo.py"))
        meta["confirmed"] = {"demo_clean_rc": rc0, "demo_mutated_rc": rc1, "repo_head": sh(["git", "-C", "/repo", "rev-parse", "--short", "HEAD"]).stdout.strip(),
                             "how": "tools/seeded.py import: demo.py run in a scratch worktree of /repo HEAD before and after `git apply patch.diff`"}
        json.dump(meta, open(os.path.join(dst, "meta.json"), "w"), indent=1)
        print("imported", name)
        return 0
    finally:
        drop_wt()


def cmd_run(names, tier, seed=None):
    make_wt()
    rows = []
    try:
        names = names or sorted(os.listdir(SEEDED))
        for name in names:
            d = os.path.join(SEEDED, name)
            if not os.path.exists(os.path.join(d, "patch.diff")):
                continue
            meta = json.load(open(os.path.join(d, "meta.json")))
            pid = meta["property"]
            ok, err = apply(os.path.join(d, "patch.diff"))
            if not ok:
                rows.append((name, pid, "patch does not apply", ""))
                undo()
                continue
            t0 = time.time()
            env = dict(os.environ, QV_REPO=WT)
            if seed is not None:
                env["VERIF_SEED"] = str(seed)
            r = sh([os.path.join(VERIF, "check"), pid, tier], env=env, cwd=VERIF, timeout=7200)
            undo()
            viol = [l for l in r.stdout.splitlines() if l.startswith("VIOLATION")]
            clauses = sorted({l.split("clause=")[1].split()[0] for l in viol if "clause=" in l})
            res = {"property": pid, "tier": tier, "exit": r.returncode, "violation_lines": len(viol), "clauses": clauses,
                   "wall_s": round(time.time() - t0, 1), "detected": r.returncode == 1 and bool(viol),
                   "tail": r.stdout.splitlines()[-1:] + r.stderr.splitlines()[-2:]}
            res["seed"] = int(seed or 0)
            json.dump(res, open(os.path.join(d, "result.json" if seed is None else "result-seed%s.json" % seed), "w"), indent=1)
            rows.append((name, pid, "DETECTED" if res["detected"] else "missed (exit %s)" % r.returncode, ",".join(clauses)[:90]))
            print(rows[-1], flush=True)
    finally:
        drop_wt()
    # the evidence files were rewritten against the mutated trees: the caller re-runs the checks on /repo
    print("\n%-28s %-5s %-18s %s" % ("seeded change", "prop", "outcome", "clauses"))
    for r_ in rows:
        print("%-28s %-5s %-18s %s" % r_)
    return 0


def cmd_summary():
    rows = []
    for name in sorted(os.listdir(SEEDED)):
        d = os.path.join(SEEDED, name)
        if not os.path.exists(os.path.join(d, "meta.json")):
            continue
        m = json.load(open(os.path.join(d, "meta.json")))
        r = json.load(open(os.path.join(d, "result.json"))) if os.path.exists(os.path.join(d, "result.json")) else {}
        hist = m.get("history", "")
        rows.append("| %s | %s | %s | %s | %s | %s |" % (
            name, m["property"], str(m.get("summary", "")).replace("|", "/").replace("\n", " ")[:230],
            str(m.get("needs", "")).replace("|", "/").replace("\n", " ")[:200],
            ("caught (%s): %s" % (r.get("tier"), ", ".join(r.get("clauses", []))[:110])) if r.get("detected") else
            ("neutralised by a later repair (was caught before)" if m.get("neutralised") else ("MISSED" if r else "not run")),
            hist))
    out = ["# Seeded property-breaking changes (produced by independent sub-agents that saw only the property text)",
           "", "Each directory holds `patch.diff`, `demo.py` (passes on the clean tree, fails with the patch; confirmed by",
           "`tools/seeded.py import`), `meta.json` and `result.json` (outcome of `tools/seeded.py run`: the property's quick check",
           "run against a scratch worktree with the patch applied).", "",
           "| change | property | what was changed | what it needs to manifest | outcome of the check | history |", "|---|---|---|---|---|---|"] + rows
    open(os.path.join(SEEDED, "SUMMARY.md"), "w").write("\n".join(out) + "\n")
    print("\n".join(out[-len(rows):]))


if __name__ == "__main__":
    a = sys.argv[1:]
    if a and a[0] == "summary":
        cmd_summary()
        sys.exit(0)
    if a and a[0] == "import":
        sys.exit(cmd_import(a[1], a[2]))
    if a and a[0] == "run":
        tier = "quick"
        if "--tier" in a:
            tier = a[a.index("--tier") + 1]
            a = [x for i, x in enumerate(a) if i not in (a.index("--tier"), a.index("--tier") + 1)]
        seed = None
        if "--seed" in a:
            seed = a[a.index("--seed") + 1]
            a = [x for i, x in enumerate(a) if i not in (a.index("--seed"), a.index("--seed") + 1)]
        sys.exit(cmd_run(a[1:], tier, seed))
    print(__doc__)
